"""Reference model of the claimed selector fragment, written from Selectors 3/4 (not from soupsieve).

Selectors are small ASTs that are *rendered* to text for soupsieve and *evaluated* here, so no
second parser is needed.  Evaluation walks the bs4 tree with its own navigation: only element
nodes (bs4.Tag that is not the BeautifulSoup document object) are parents, ancestors, siblings.

compound = dict(tag, ns, ids, classes, attrs, pseudos)
   attrs   = [(ns, name, op, value, flag)]   op in '', '=', '~=', '|=', '^=', '$=', '*=', '!='
   pseudos = [('root',), ('empty',), ('first-child',) ..., ('nth', kind, a, b, ofS|None),
              ('not'|'is'|'where'|'matches', [complex, ...]), ('has', [(comb, complex), ...]), ('scope',)]
complex  = [compound, (comb, compound), ...]   left to right, subject last; comb in ' ', '>', '+', '~'
"""
from __future__ import annotations
import soupsieve  # noqa: F401  (before bs4: C16)
import bs4

WS = ' \t\r\n\f'
XHTML = 'http://www.w3.org/1999/xhtml'


def lower_ascii(s: str) -> str:
    out = ''
    for c in s:
        o = ord(c)
        out += chr(o + 32) if 65 <= o <= 90 else c
    return out


def comp(tag=None, ns=None, ids=(), classes=(), attrs=(), pseudos=()):
    return dict(tag=tag, ns=ns, ids=list(ids), classes=list(classes), attrs=list(attrs), pseudos=list(pseudos))


# ---------------------------------------------------------------------------------------------
# rendering

def css_string(v: str) -> str:
    out = '"'
    for ch in v:
        if ch in '"\\':
            out += '\\' + ch
        elif ch in '\n\r\f' or ch == '\x00':
            out += '\\%x ' % ord(ch)
        else:
            out += ch
    return out + '"'


def render_compound(c) -> str:
    s = ''
    if c['ns'] is not None:
        s += c['ns'] + '|'
    if c['tag'] is not None:
        s += c['tag']
    for i in c['ids']:
        s += '#' + i
    for k in c['classes']:
        s += '.' + k
    for ns, name, op, value, flag in c['attrs']:
        s += '[' + ((ns + '|') if ns is not None else '') + name
        if op:
            s += op + css_string(value)
            if flag:
                s += ' ' + flag
        s += ']'
    for p in c['pseudos']:
        s += render_pseudo(p)
    return s or '*'


def render_anb(a, b):
    if a == 0:
        return str(b)
    s = ('-' if a == -1 else '' if a == 1 else str(a)) + 'n'
    if b:
        s += ('+' if b > 0 else '-') + str(abs(b))
    return s


def render_pseudo(p) -> str:
    k = p[0]
    if k in ('not', 'is', 'where', 'matches'):
        return ':' + k + '(' + ', '.join(render_complex(cx) for cx in p[1]) + ')'
    if k == 'has':
        return ':has(' + ', '.join((comb.strip() + ' ' if comb.strip() else '') + render_complex(cx)
                                   for comb, cx in p[1]) + ')'
    if k == 'nth':
        _, kind, a, b, of_s = p
        s = ':' + kind + '(' + render_anb(a, b)
        if of_s is not None:
            s += ' of ' + ', '.join(render_complex(cx) for cx in of_s)
        return s + ')'
    if k == 'amp':
        return '&'
    if k == 'custom':
        return p[1]
    return ':' + k


def render_complex(cx) -> str:
    s = render_compound(cx[0])
    for comb, c in cx[1:]:
        s += (' ' if comb == ' ' else ' ' + comb + ' ') + render_compound(c)
    return s


def render_list(lst) -> str:
    return ', '.join(render_complex(cx) for cx in lst)


# ---------------------------------------------------------------------------------------------
# tree navigation (own helpers)

def is_element(n) -> bool:
    return isinstance(n, bs4.Tag) and not isinstance(n, bs4.BeautifulSoup)


def parent_element(el):
    p = el.parent
    return p if p is not None and is_element(p) else None


def element_children(n):
    return [c for c in n.contents if is_element(c)]


def siblings(el):
    p = el.parent
    if p is None:
        return [el]
    return [c for c in p.contents if is_element(c)]


def descendants(n):
    out = []
    for c in n.contents:
        if is_element(c):
            out.append(c)
            out.extend(descendants(c))
    return out


def is_text(n) -> bool:
    """Character data that counts as content: plain text nodes only."""
    return isinstance(n, bs4.NavigableString) and not isinstance(
        n, (bs4.Comment, bs4.CData, bs4.ProcessingInstruction, bs4.Declaration, bs4.Doctype))


class Ctx:
    def __init__(self, root_node, scope=None, html=True, namespaces=None, ns_aware=None):
        """root_node: the object select() is called on (document or element).
        html: not an XML tree (names fold ASCII case, `type` values compare insensitively).
        ns_aware: element namespaces are meaningful (XML trees, or HTML5 trees whose root is in the XHTML
        namespace); otherwise every element counts as being in the XHTML namespace."""
        top = root_node
        while top.parent is not None:
            top = top.parent
        self.doc = top if isinstance(top, bs4.BeautifulSoup) else None
        if self.doc is not None:
            kids = element_children(self.doc)
            self.root = kids[0] if kids else None
        else:
            self.root = top
        self.scope = scope if scope is not None else (self.root if root_node is self.doc else root_node)
        self.html = html
        self.namespaces = namespaces or {}
        if ns_aware is None:
            ns_aware = (not html) or (self.root is not None and (self.root.namespace or '') == XHTML)
        self.ns_aware = ns_aware
        self._top = top
        self._all = None
        self.custom = {}

    def all_elements(self):
        if self._all is None:
            self._all = ([self._top] if is_element(self._top) else []) + descendants(self._top)
        return self._all


# ---------------------------------------------------------------------------------------------
# evaluation

def attr_value(el, name, ctx):
    """Value (str) of the attribute called `name` (no namespace) or None."""
    for k, v in el.attrs.items():
        ks = str(k)
        if (lower_ascii(ks) == lower_ascii(name)) if ctx.html else (ks == name):
            if v is None:
                return ''
            if isinstance(v, (list, tuple)):
                return ' '.join(str(x) for x in v)
            return str(v)
    return None


def split_ws(s: str):
    out, cur = [], ''
    for ch in s:
        if ch in WS:
            if cur:
                out.append(cur)
            cur = ''
        else:
            cur += ch
    if cur:
        out.append(cur)
    return out


def attr_op(op: str, value: str, operand: str, insensitive: bool) -> bool:
    if insensitive:
        value, operand = lower_ascii(value), lower_ascii(operand)
    if op == '=':
        return value == operand
    if op == '!=':
        return value != operand
    if op == '~=':
        if operand == '' or any(ch in WS for ch in operand):
            return False
        return operand in split_ws(value)
    if op == '|=':
        return value == operand or value.startswith(operand + '-')
    if operand == '':
        return False            # ^= $= *= with an empty operand designate nothing
    if op == '^=':
        return value.startswith(operand)
    if op == '$=':
        return value.endswith(operand)
    if op == '*=':
        return operand in value
    raise ValueError(op)


def match_attr(el, a, ctx) -> bool:
    ns, name, op, operand, flag = a
    v = attr_value(el, name, ctx)
    if op == '!=':
        # soupsieve extension: equivalent to :not([attr=value])
        if v is None:
            return True
    elif v is None:
        return False
    if not op:
        return True
    if flag == 'i':
        ins = True
    elif flag == 's':
        ins = False
    else:
        ins = ctx.html and lower_ascii(name) == 'type'
    return attr_op(op, v, operand, ins)


def ref_anb(a: int, b: int, pos: int) -> bool:
    if a == 0:
        return pos == b
    d = pos - b
    if a > 0:
        return d >= 0 and d % a == 0
    return d <= 0 and (-d) % (-a) == 0


def same_type(a, b, ctx) -> bool:
    if ctx.html:
        return lower_ascii(a.name) == lower_ascii(b.name) and (
            not ctx.ns_aware or (a.namespace or '') == (b.namespace or ''))
    return a.name == b.name and (a.namespace or '') == (b.namespace or '')


def nth_position(el, last, of_type, of_s, ctx) -> int:
    sibs = siblings(el)
    if last:
        sibs = sibs[::-1]
    pos = 0
    for s in sibs:
        if of_type and not same_type(el, s, ctx):
            continue
        if of_s is not None and not any(matches_complex(s, cx, ctx) for cx in of_s):
            continue
        pos += 1
        if s is el:
            return pos
    return 0


def match_pseudo(el, p, ctx) -> bool:
    k = p[0]
    if k == 'root':
        if ctx.root is not el:
            return False
        # a document with other top-level elements or text is not a well-formed single-rooted tree
        top = el.parent.contents if el.parent is not None else [el]
        for n in top:
            if n is el:
                continue
            if is_element(n) or isinstance(n, bs4.CData) or (is_text(n) and n.strip(WS)):
                return False
        return True
    if k in ('scope', 'amp'):
        return ctx.scope is el
    if k == 'custom':
        return any(matches_complex(el, cx, ctx) for cx in ctx.custom[p[1]])
    if k == 'empty':
        for n in el.contents:
            if is_element(n):
                return False
            if is_text(n) and any(ch not in WS for ch in n):
                return False
        return True
    if k in ('first-child', 'last-child', 'only-child', 'first-of-type', 'last-of-type', 'only-of-type'):
        ot = k.endswith('of-type')
        ok = True
        if k.startswith(('first', 'only')):
            ok = ok and nth_position(el, False, ot, None, ctx) == 1
        if k.startswith(('last', 'only')):
            ok = ok and nth_position(el, True, ot, None, ctx) == 1
        return ok
    if k == 'nth':
        _, kind, a, b, of_s = p
        last = 'last' in kind
        of_type = kind.endswith('of-type')
        if of_s is not None and not any(matches_complex(el, cx, ctx) for cx in of_s):
            return False
        pos = nth_position(el, last, of_type, of_s, ctx)
        return pos > 0 and ref_anb(a, b, pos)
    if k in ('is', 'where', 'matches'):
        return any(matches_complex(el, cx, ctx) for cx in p[1])
    if k == 'not':
        return not any(matches_complex(el, cx, ctx) for cx in p[1])
    if k == 'has':
        # relative selector: SOME element anywhere matches the complex selector with its leftmost compound standing
        # in relation `comb` to this element
        for comb, cx in p[1]:
            for cand in ctx.all_elements():
                if matches_complex_anchored(cand, cx, ctx, el, comb):
                    return True
        return False
    raise ValueError(k)


def match_tag(el, c, ctx) -> bool:
    tag, ns = c['tag'], c['ns']
    if tag is not None and tag != '*':
        if (lower_ascii(el.name) != lower_ascii(tag)) if ctx.html else (el.name != tag):
            return False
    # namespaces (C12)
    el_ns = (el.namespace or '') if ctx.ns_aware else XHTML
    if ns is None:
        if tag is None:
            return True           # no type selector at all (inside a compound without one)
        default = ctx.namespaces.get('')
        return default is None or el_ns == default
    if ns == '*':
        return True
    if ns == '':
        return el_ns == ''
    uri = ctx.namespaces.get(ns)
    return uri is not None and el_ns == uri


def match_compound(el, c, ctx) -> bool:
    if not match_tag(el, c, ctx):
        return False
    for i in c['ids']:
        if attr_value(el, 'id', ctx) != i:
            return False
    if c['classes']:
        v = attr_value(el, 'class', ctx)
        have = split_ws(v) if v is not None else []
        for k in c['classes']:
            if k not in have:
                return False
    for a in c['attrs']:
        if not match_attr(el, a, ctx):
            return False
    for p in c['pseudos']:
        if not match_pseudo(el, p, ctx):
            return False
    return True


def matches_complex(el, cx, ctx) -> bool:
    return _match_from(el, cx, len(cx) - 1, ctx)


def _match_from(el, cx, i, ctx) -> bool:
    c = cx[i] if i == 0 else cx[i][1]
    if not match_compound(el, c, ctx):
        return False
    if i == 0:
        return True
    comb = cx[i][0]
    if comb == '>':
        p = parent_element(el)
        return p is not None and _match_from(p, cx, i - 1, ctx)
    if comb == ' ':
        p = parent_element(el)
        while p is not None:
            if _match_from(p, cx, i - 1, ctx):
                return True
            p = parent_element(p)
        return False
    sibs = siblings(el)
    idx = [j for j, s in enumerate(sibs) if s is el][0]
    if comb == '+':
        return idx > 0 and _match_from(sibs[idx - 1], cx, i - 1, ctx)
    if comb == '~':
        return any(_match_from(s, cx, i - 1, ctx) for s in sibs[:idx])
    raise ValueError(comb)


def matches_complex_anchored(cand, cx, ctx, anchor, comb) -> bool:
    """Relative selector of :has(): `cand` matches cx and the leftmost compound of cx is related to `anchor` by
    `comb`.  Enumerate assignments by walking left from cand and requiring the chain to end exactly at a node
    standing in relation `comb` to the anchor."""
    return _anch(cand, cx, len(cx) - 1, ctx, anchor, comb)


def _related(node, anchor, comb) -> bool:
    if comb == '>':
        return parent_element(node) is anchor
    if comb == ' ':
        p = parent_element(node)
        while p is not None:
            if p is anchor:
                return True
            p = parent_element(p)
        return False
    sibs = siblings(anchor)
    i = [j for j, s in enumerate(sibs) if s is anchor][0]
    if comb == '+':
        return i + 1 < len(sibs) and sibs[i + 1] is node
    return any(s is node for s in sibs[i + 1:])


def _anch(el, cx, i, ctx, anchor, acomb) -> bool:
    c = cx[i] if i == 0 else cx[i][1]
    if not match_compound(el, c, ctx):
        return False
    if i == 0:
        return _related(el, anchor, acomb)
    comb = cx[i][0]
    if comb == '>':
        p = parent_element(el)
        return p is not None and _anch(p, cx, i - 1, ctx, anchor, acomb)
    if comb == ' ':
        p = parent_element(el)
        while p is not None:
            if _anch(p, cx, i - 1, ctx, anchor, acomb):
                return True
            p = parent_element(p)
        return False
    sibs = siblings(el)
    idx = [j for j, s in enumerate(sibs) if s is el][0]
    if comb == '+':
        return idx > 0 and _anch(sibs[idx - 1], cx, i - 1, ctx, anchor, acomb)
    return any(_anch(s, cx, i - 1, ctx, anchor, acomb) for s in sibs[:idx])


def ref_select(lst, node, html=True, namespaces=None, ns_aware=None, custom=None):
    """Reference select(): element descendants of `node`, document order, matching some complex selector."""
    ctx = Ctx(node, html=html, namespaces=namespaces, ns_aware=ns_aware)
    ctx.custom = custom or {}
    return [e for e in descendants(node) if any(matches_complex(e, cx, ctx) for cx in lst)]


def ref_match(lst, el, scope_node=None, html=True, namespaces=None, custom=None):
    ctx = Ctx(scope_node if scope_node is not None else el, html=html, namespaces=namespaces)
    ctx.custom = custom or {}
    return is_element(el) and any(matches_complex(el, cx, ctx) for cx in lst)
