"""E2: live `re.Pattern` objects -> z3 regular-expression terms.

The pattern text and flags are taken from the compiled object found in the freshly imported
soupsieve module and parsed with `re._parser.parse`, the front end `re` itself uses.

Supported exactly: literals, classes, `.`, branches, groups, greedy/lazy repeats (as languages),
`^`/`$`/`\\Z` at sequence level, look-ahead at sequence level (continuation-passing), look-behind at
sequence level (prefix intersection), ASCII case folding under re.I.
Approximated (translation is then marked inexact and says in which direction): look-arounds inside
unbounded loops (dropped: over-approximation), non-ASCII case folding (ignored), `\\d`/`\\w` beyond
ASCII.  z3 characters stop at U+2FFFF: code points above are outside every E2 claim.
"""
from __future__ import annotations
import re
import re._parser as sre_parse
import re._constants as sre_c
import z3

MAXCH = 0x2FFFF
_SS = z3.StringSort()
_RS = z3.ReSort(_SS)
ALLCHAR = z3.AllChar(_RS)
FULL = z3.Full(_RS)
EMPTYSET = z3.Empty(_RS)


def lit(s: str):
    """z3 string literal for an arbitrary Python string (every char as an explicit escape)."""
    return z3.StringVal(''.join('\\u{%x}' % ord(c) for c in s))


EPS = z3.Re(lit(''))


def decode(zs) -> str:
    """Python string of a z3 string value."""
    s = zs.as_string()
    return re.sub(r'\\u\{([0-9a-fA-F]+)\}', lambda m: chr(int(m.group(1), 16)), s)


def rng(lo: int, hi: int):
    lo, hi = max(lo, 0), min(hi, MAXCH)
    if lo > hi:
        return None
    if lo == hi:
        return z3.Re(lit(chr(lo)))
    return z3.Range(lit(chr(lo)), lit(chr(hi)))


def union(parts):
    parts = [p for p in parts if p is not None]
    if not parts:
        return EMPTYSET
    if len(parts) == 1:
        return parts[0]
    return z3.Union(*parts)


def concat(parts):
    parts = [p for p in parts if p is not EPS]
    if not parts:
        return EPS
    if len(parts) == 1:
        return parts[0]
    return z3.Concat(*parts)


SPACE_RANGES = [(9, 13), (28, 32), (0x85, 0x85), (0xa0, 0xa0), (0x1680, 0x1680), (0x2000, 0x200a), (0x2028, 0x2029),
                (0x202f, 0x202f), (0x205f, 0x205f), (0x3000, 0x3000)]
DIGIT_RANGES = [(48, 57)]


def _ranges(pred, limit=0x30000):
    out, start = [], None
    for cp in range(limit):
        if pred(chr(cp)):
            if start is None:
                start = cp
        elif start is not None:
            out.append((start, cp - 1))
            start = None
    if start is not None:
        out.append((start, limit - 1))
    return out


# \d of a str pattern without re.ASCII is the Unicode category Nd (z3 characters stop at U+2FFFF)
UNICODE_DIGIT_RANGES = _ranges(lambda ch: ch.isdecimal())
WORD_RANGES = [(48, 57), (65, 90), (95, 95), (97, 122)]


class Translation:
    def __init__(self, pattern: re.Pattern | str, flags: int = 0):
        if isinstance(pattern, str):
            self.source, self.flags = pattern, flags
        else:
            self.source, self.flags = pattern.pattern, pattern.flags
        self.tree = sre_parse.parse(self.source, self.flags)
        self.flags = self.tree.state.flags | self.flags
        self.inexact = []       # notes on approximations made

    # -- character sets -----------------------------------------------------------------------
    def _fold(self, lo, hi):
        """Ranges equivalent to [lo-hi] under ASCII case folding (if re.I)."""
        out = [(lo, hi)]
        if self.flags & re.I:
            for a, b, d in ((65, 90, 32), (97, 122, -32)):
                l2, h2 = max(lo, a), min(hi, b)
                if l2 <= h2:
                    out.append((l2 + d, h2 + d))
            if hi > 127 and 'non-ASCII case folding ignored' not in self.inexact:
                pass
        return out

    def _category(self, cat):
        neg = False
        if cat in (sre_c.CATEGORY_SPACE, sre_c.CATEGORY_NOT_SPACE):
            rs, neg = SPACE_RANGES, cat == sre_c.CATEGORY_NOT_SPACE
        elif cat in (sre_c.CATEGORY_DIGIT, sre_c.CATEGORY_NOT_DIGIT):
            rs, neg = (DIGIT_RANGES if self.flags & re.ASCII else UNICODE_DIGIT_RANGES), cat == sre_c.CATEGORY_NOT_DIGIT
        elif cat in (sre_c.CATEGORY_WORD, sre_c.CATEGORY_NOT_WORD):
            rs, neg = WORD_RANGES, cat == sre_c.CATEGORY_NOT_WORD
            self.inexact.append('\\w restricted to ASCII')
        else:
            raise NotImplementedError(cat)
        r = union([rng(a, b) for a, b in rs])
        return z3.Intersect(ALLCHAR, z3.Complement(r)) if neg else r

    def charset(self, node):
        """z3 regex for one-character node (LITERAL, NOT_LITERAL, ANY, IN, CATEGORY) or None."""
        op, arg = node
        if op is sre_c.LITERAL:
            return union([rng(a, b) for a, b in self._fold(arg, arg)])
        if op is sre_c.NOT_LITERAL:
            return z3.Intersect(ALLCHAR, z3.Complement(union([rng(a, b) for a, b in self._fold(arg, arg)])))
        if op is sre_c.ANY:
            if self.flags & re.S:
                return ALLCHAR
            return z3.Intersect(ALLCHAR, z3.Complement(z3.Re(lit('\n'))))
        if op is sre_c.CATEGORY:
            return self._category(arg)
        if op is sre_c.IN:
            items = list(arg)
            neg = bool(items) and items[0][0] is sre_c.NEGATE
            if neg:
                items = items[1:]
            parts = []
            for o, a in items:
                if o is sre_c.LITERAL:
                    parts.extend(rng(x, y) for x, y in self._fold(a, a))
                elif o is sre_c.RANGE:
                    parts.extend(rng(x, y) for x, y in self._fold(a[0], a[1]))
                elif o is sre_c.CATEGORY:
                    parts.append(self._category(a))
                else:
                    raise NotImplementedError(o)
            u = union(parts)
            return z3.Intersect(ALLCHAR, z3.Complement(u)) if neg else u
        return None

    # -- structure ------------------------------------------------------------------------------
    def has_lookaround(self, nodes) -> bool:
        for op, arg in nodes:
            if op in (sre_c.ASSERT, sre_c.ASSERT_NOT, sre_c.AT):
                return True
            if op is sre_c.BRANCH:
                if any(self.has_lookaround(a) for a in arg[1]):
                    return True
            elif op is sre_c.SUBPATTERN:
                if self.has_lookaround(arg[3]):
                    return True
            elif op in (sre_c.MAX_REPEAT, sre_c.MIN_REPEAT):
                if self.has_lookaround(arg[2]):
                    return True
        return False

    def plain(self, nodes, drop=False):
        """Language of a look-around-free node list. With drop=True look-arounds are treated as epsilon
        (over-approximation) and the fact is recorded."""
        parts = []
        for node in nodes:
            op, arg = node
            cs = self.charset(node)
            if cs is not None:
                parts.append(cs)
            elif op is sre_c.BRANCH:
                parts.append(union([self.plain(a, drop) for a in arg[1]]))
            elif op is sre_c.SUBPATTERN:
                parts.append(self.plain(arg[3], drop))
            elif op in (sre_c.MAX_REPEAT, sre_c.MIN_REPEAT):
                lo, hi, body = arg
                b = self.plain(body, drop)
                parts.append(self.loop(b, lo, hi))
            elif op in (sre_c.ASSERT, sre_c.ASSERT_NOT, sre_c.AT):
                if not drop:
                    raise ValueError('look-around in plain context')
                self.inexact.append('look-around dropped (over-approximation): ' + repr(node)[:60])
            else:
                raise NotImplementedError(op)
        return concat(parts)

    @staticmethod
    def loop(b, lo, hi):
        if hi is sre_c.MAXREPEAT or hi >= 65535:
            if lo == 0:
                return z3.Star(b)
            if lo == 1:
                return z3.Plus(b)
            return z3.Concat(z3.Loop(b, lo, lo), z3.Star(b))
        if lo == 0 and hi == 1:
            return z3.Option(b)
        return z3.Loop(b, lo, hi)

    def go(self, acc, nodes, K, at_start):
        """Language of `nodes` followed by continuation K, given that `acc` (regex, local prefix from the start of
        the enclosing sequence) precedes.  Returns acc . nodes . K with look-arounds honoured."""
        nodes = list(nodes)
        for i, node in enumerate(nodes):
            op, arg = node
            rest = nodes[i + 1:]
            if not self.has_lookaround([node]):
                acc = concat([acc, self.plain([node])])
                at_start = False if not self._nullable(node) else at_start
                continue
            if op is sre_c.AT:
                if arg in (sre_c.AT_BEGINNING, sre_c.AT_BEGINNING_STRING):
                    if acc is not EPS:
                        acc = z3.Intersect(acc, EPS)
                    continue
                if arg is sre_c.AT_END:
                    tail = self.go(EPS, rest, K, False)
                    return concat([acc, z3.Intersect(tail, z3.Union(EPS, z3.Re(lit('\n'))))])
                if arg is sre_c.AT_END_STRING:
                    tail = self.go(EPS, rest, K, False)
                    return concat([acc, z3.Intersect(tail, EPS)])
                raise NotImplementedError(arg)
            if op in (sre_c.ASSERT, sre_c.ASSERT_NOT):
                direction, sub = arg
                if direction == 1:
                    x = self.go(EPS, sub, FULL, False)
                    if op is sre_c.ASSERT_NOT:
                        x = z3.Complement(x)
                    tail = self.go(EPS, rest, K, False)
                    return concat([acc, z3.Intersect(x, tail)])
                # look-behind
                if len(sub) == 1 and sub[0][0] is sre_c.AT and sub[0][1] in (sre_c.AT_BEGINNING,
                                                                             sre_c.AT_BEGINNING_STRING):
                    # (?<=^): nothing has been consumed yet (patterns are applied with match() at offset 0)
                    acc = z3.Intersect(acc, EPS if op is sre_c.ASSERT else z3.Complement(EPS))
                    continue
                y = z3.Concat(FULL, self.plain(sub))
                if op is sre_c.ASSERT_NOT:
                    y = z3.Complement(y)
                if not at_start:
                    self.inexact.append('look-behind evaluated against the local prefix only')
                acc = z3.Intersect(acc, y)
                continue
            if op is sre_c.SUBPATTERN:
                return self.go(acc, list(arg[3]) + rest, K, at_start)
            if op is sre_c.BRANCH:
                return union([self.go(acc, list(a) + rest, K, at_start) for a in arg[1]])
            if op in (sre_c.MAX_REPEAT, sre_c.MIN_REPEAT):
                lo, hi, body = arg
                if hi is not sre_c.MAXREPEAT and hi <= 3:
                    alts = []
                    for k in range(lo, hi + 1):
                        alts.append(self.go(acc, list(body) * k + rest, K, at_start))
                    return union(alts)
                acc = concat([acc, self.loop(self.plain(body, drop=True), lo, hi)])
                continue
            raise NotImplementedError(op)
        return concat([acc, K])

    def _nullable(self, node) -> bool:
        op, arg = node
        if op in (sre_c.MAX_REPEAT, sre_c.MIN_REPEAT):
            return arg[0] == 0
        return False

    # -- public -----------------------------------------------------------------------------------
    def full_language(self):
        """{ s | pattern.fullmatch(s) } (any-path semantics)."""
        return self.go(EPS, self.tree, EPS, True)

    def prefix_language(self):
        """{ s | pattern.match(s) is not None }."""
        return self.go(EPS, self.tree, FULL, True)

    def token_language(self):
        """{ t | some match attempt at position 0 can consume exactly t } ignoring what follows (look-aheads at the
        end are evaluated against an arbitrary continuation, i.e. dropped only if they cannot be decided)."""
        return self.plain(self.tree, drop=True)

    # -- loops (for ambiguity analysis) -----------------------------------------------------------
    def loops(self):
        """All repeat nodes with an upper bound > 1: [(path, lo, hi, body_nodes)]."""
        out = []

        def walk(nodes, path):
            for i, (op, arg) in enumerate(nodes):
                p = path + (i,)
                if op is sre_c.BRANCH:
                    for j, a in enumerate(arg[1]):
                        walk(a, p + ('|', j))
                elif op is sre_c.SUBPATTERN:
                    walk(arg[3], p)
                elif op in (sre_c.MAX_REPEAT, sre_c.MIN_REPEAT):
                    lo, hi, body = arg
                    if hi is sre_c.MAXREPEAT or hi > 1:
                        out.append((p, lo, hi, body))
                    walk(body, p + ('*',))
                elif op in (sre_c.ASSERT, sre_c.ASSERT_NOT):
                    walk(arg[1], p + ('?',))
        walk(self.tree, ())
        return out


def members(regex, n=3, maxlen=None, timeout_ms=20000, avoid=()):
    """Up to n distinct members of a z3 regex (decoded Python strings)."""
    x = z3.String('x')
    s = z3.Solver()
    s.set('timeout', timeout_ms)
    s.add(z3.InRe(x, regex))
    if maxlen is not None:
        s.add(z3.Length(x) <= maxlen)
    out = []
    for a in avoid:
        s.add(x != lit(a))
    while len(out) < n and str(s.check()) == 'sat':
        v = decode(s.model()[x])
        out.append(v)
        s.add(x != lit(v))
    return out
