"""Support code imported by every E1 harness module (harness/cNN.py).

Modes (environment):
  VERIF_SYMBOLIC=1   the module is being executed by CrossHair: install the environment stubs
                     (listed in DESIGN.md 2.1 and in every evidence file's `assumptions`).
  VERIF_PART=i/n     slice i of n of every enumerated pool (lets 16 processes explore
                     disjoint parts of the bounded dimensions of one condition).
  VERIF_TWIN=1       vacuity twin: every condition returns the negation of its verdict, so a
                     counterexample proves that the final assertion is reachable under `pre:`.
Without VERIF_SYMBOLIC the real, unstubbed library is used (replay mode).
"""
from __future__ import annotations
import os
import sys
import warnings

sys.path.insert(0, os.path.dirname(os.path.dirname(os.path.abspath(__file__))))

import soupsieve as sv  # noqa: E402  (must precede bs4: see C16)
import bs4  # noqa: E402
from soupsieve import css_match as cm, css_parser as cp, css_types as ct, util  # noqa: E402

SYMBOLIC = os.environ.get('VERIF_SYMBOLIC') == '1'
TWIN = os.environ.get('VERIF_TWIN') == '1'
_p = os.environ.get('VERIF_PART', '0/1').split('/')
PART, NPARTS = int(_p[0]), int(_p[1])
TIER = os.environ.get('VERIF_TIER', 'quick')

warnings.simplefilter('ignore')

STUBS = []
if SYMBOLIC:
    # util.lower is an lru_cache around a pure function; the cache would hash (hence realise)
    # symbolic strings.  Use the wrapped function itself.
    _ORIG_LOWER = util.lower
    _raw_lower = util.lower.__wrapped__
    util.lower = _raw_lower
    STUBS.append('util.lower -> util.lower.__wrapped__ (drop lru_cache; function is pure)')
    from vlib import chfix
    chfix.install()
    STUBS.append('crosshair relib.unicode_ignorecase_mask: escape literal before re.compile (CrossHair 0.0.110 bug)')
    # Immutable.__init__ stores hash(tuple(fields)); with symbolic fields CrossHair hands back a symbolic int, which
    # Python refuses as a __hash__ result.  Return the same value, realised.
    from crosshair.core import realize as _rz

    def _immutable_hash(self):
        return _rz(self._hash)
    ct.Immutable.__hash__ = _immutable_hash
    STUBS.append('css_types.Immutable.__hash__ returns the stored hash realised to a plain int')


def ret(ok: bool) -> bool:
    """Final verdict of a condition (negated in twin mode)."""
    return (not ok) if TWIN else bool(ok)


def part(pool):
    """The slice of an enumerated pool this process is responsible for."""
    return list(pool)[PART::NPARTS] if NPARTS > 1 else list(pool)


def html_soup():
    """Empty HTML document object backed by the html.parser builder."""
    return bs4.BeautifulSoup('', 'html.parser')


def xml_soup():
    """Empty XML document object (lxml-xml builder, _is_xml true)."""
    return bs4.BeautifulSoup('', 'xml')


def raw_compile(pattern, namespaces=None, custom=None, flags=0):
    """compile() without the lru_cache (which would hash symbolic patterns)."""
    ns = ct.Namespaces(namespaces) if namespaces is not None else None
    cs = ct.CustomSelectors(custom) if custom is not None else None
    return cm.SoupSieve(
        pattern,
        cp.CSSParser(pattern, custom=cp.process_custom(cs), flags=flags).process_selectors(),
        ns, cs, flags
    )


import contextlib  # noqa: E402
import signal  # noqa: E402

_cached_lower = util.lower if not SYMBOLIC else None
NATIVE_LIMIT = 60          # seconds one native block may run before it counts as non-termination


class NonTermination(Exception):
    """Raised inside a native block that did not finish in time (reported and replayed like any other exception)."""


def _alarm(signum, frame):
    raise NonTermination(f'native block still running after {NATIVE_LIMIT}s')


class _Native:
    """Run a purely concrete block natively: no tracing, the library's real (cached) util.lower, and a watchdog so
    that an endless loop in the library becomes a counterexample instead of a silently exhausted budget."""

    def __init__(self):
        self.cm = None

    def __enter__(self):
        if SYMBOLIC:
            from crosshair.tracers import NoTracing
            self.cm = NoTracing()
            self.cm.__enter__()
            util.lower = _ORIG_LOWER
        try:
            self.old = signal.signal(signal.SIGALRM, _alarm)
            signal.setitimer(signal.ITIMER_REAL, NATIVE_LIMIT)
        except ValueError:      # not in the main thread
            self.old = None
        return self

    def __exit__(self, *a):
        if self.old is not None:
            signal.setitimer(signal.ITIMER_REAL, 0)
            signal.signal(signal.SIGALRM, self.old)
        if SYMBOLIC:
            util.lower = _raw_lower
            self.cm.__exit__(*a)
        return False


if SYMBOLIC:
    from crosshair.core import realize as _realize

    def concrete(x):
        """Force the solver to pick a concrete value for an (index-like) symbolic."""
        return _realize(x)
else:
    def concrete(x):
        return x


def notrace():
    """Context manager for native blocks (no symbolic value may flow into them)."""
    return _Native()
