"""Respelling of reference ASTs (vlib/refmodel.py) by the CSS-insignificant rewrite rules of C09."""
from __future__ import annotations
import random

OPT = ['', ' ', '  ', '\t', '\n', '\r\n', '\f', '\n  ', '/**/', ' /**/', '/**/ ', '/* * */', ' /*a*/ ', '/***/', ' /* > */ ',
       '/* "q" */', ' /* x, y */', '/*)*/', '/*]*/ ', "/* ' */", '/* **/', ' /*\\*/']
import re as _re
REQ = [f for f in OPT if any(c in ' \t\n\r\f' for c in _re.sub(r'/\*.*?\*/', '', f, flags=_re.S))]
HEXSAFE = 'ghijklmnopqrstuvwxyzGHIJKLMNOPQRSTUVWXYZ_'


HEXSAFE_NOT = '0123456789abcdefABCDEF'


class Speller:
    def __init__(self, seed, level=1.0):
        self.r = random.Random(seed)
        self.level = level

    def opt(self):
        return self.r.choice(OPT) if self.r.random() < self.level else ''

    def req(self):
        return self.r.choice(REQ) if self.r.random() < self.level else ' '

    def ident(self, s):
        out = ''
        for i, ch in enumerate(s):
            k = self.r.random()
            if not (ch.isalnum() or ch in '_-' or ord(ch) >= 0x80):
                # a character that is only an identifier character when escaped: one of the three escape forms, always
                if ch in '\n\r\f' or ch in HEXSAFE_NOT or k < 0.5:
                    out += '\\%x' % ord(ch) + (self.r.choice([' ', '\t', '\n', '\r\n', '\f']) if self.level else ' ')
                elif k < 0.75:
                    out += '\\%06x' % ord(ch) + self.r.choice(['', ' ', '\n'])
                else:
                    out += '\\' + ch
                continue
            if k < 0.25 * self.level:
                out += '\\%x' % ord(ch) + self.r.choice([' ', ' ', '\t', '\n', '\r\n', '\f'])
            elif k < 0.35 * self.level:
                out += '\\%06x' % ord(ch) + self.r.choice([' ', '\r\n', '\n'])
            elif k < 0.45 * self.level and ch in HEXSAFE:
                out += '\\' + ch
            else:
                out += ch
        return out

    def case(self, s):
        return ''.join((c.upper() if self.r.random() < 0.5 * self.level else c) for c in s)

    def name(self, s):
        """A pseudo-class name: case variants, occasionally with a character written as an escape."""
        t = self.case(s)
        if self.r.random() < 0.3 * self.level:
            i = self.r.randrange(len(t))
            ch = t[i]
            if ch != '-' or i > 0:
                esc = ('\\%x ' % ord(ch)) if (self.r.random() < 0.6 or ch not in HEXSAFE) else ('\\' + ch)
                t = t[:i] + esc + t[i + 1:]
        return t

    def value(self, v):
        """Attribute operand / string argument: double quotes, single quotes, or bare identifier when possible."""
        k = self.r.randrange(3)
        body = ''
        ident_ok = v != '' and all(c.isalnum() or c in '_-' for c in v) and not v[0].isdigit() and v not in ('-',) \
            and not (v[0] == '-' and len(v) > 1 and v[1].isdigit())
        if k == 2 and ident_ok:
            return self.ident(v)
        q = '"' if k == 0 else "'"
        for ch in v:
            if ch == q or ch == '\\':
                body += '\\' + ch
            elif ch in '\n\r\f':
                body += '\\%x ' % ord(ch)
            elif self.r.random() < 0.2 * self.level:
                body += '\\%x ' % ord(ch)
            else:
                body += ch
            if self.r.random() < 0.08 * self.level:
                body += '\\' + self.r.choice(['\n', '\r\n', '\f'])      # escaped newline: continues the string, adds nothing
        return q + body + q


def render_anb(sp, a, b):
    if a == 0:
        return str(b)
    if (a, b) == (2, 0) and sp.r.random() < 0.3:
        return sp.case('even')
    if (a, b) == (2, 1) and sp.r.random() < 0.5:
        return sp.case('odd')
    s = ('-' if a == -1 else ('+' if sp.r.random() < 0.2 else '') if a == 1 else str(a)) + sp.case('n')
    if b:
        s += sp.opt() + ('+' if b > 0 else '-') + sp.opt() + str(abs(b))
    return s


def compound(sp, c):
    s = ''
    if c['ns'] is not None:
        s += (sp.ident(c['ns']) if c['ns'] not in ('', '*') else c['ns']) + '|'
    if c['tag'] is not None:
        s += c['tag'] if c['tag'] == '*' else sp.ident(c['tag'])
    for i in c['ids']:
        s += '#' + sp.ident(i)
    for k in c['classes']:
        s += '.' + sp.ident(k)
    for ns, name, op, value, flag in c['attrs']:
        s += '[' + sp.opt() + ((ns + '|') if ns is not None else '') + sp.ident(name)
        if op:
            s += sp.opt() + op + sp.opt() + sp.value(value)
            if flag:
                s += sp.req() + sp.case(flag)
        s += sp.opt() + ']'
    for p in c['pseudos']:
        s += pseudo(sp, p)
    return s or '*'


def pseudo(sp, p):
    k = p[0]
    if k in ('not', 'is', 'where', 'matches'):
        return ':' + sp.name(k) + '(' + sp.opt() + (sp.opt() + ',' + sp.opt()).join(complex_(sp, cx) for cx in p[1]) + sp.opt() + ')'
    if k == 'has':
        parts = []
        for comb, cx in p[1]:
            parts.append((comb.strip() + sp.opt() if comb.strip() else '') + complex_(sp, cx))
        return ':' + sp.name('has') + '(' + sp.opt() + (sp.opt() + ',' + sp.opt()).join(parts) + sp.opt() + ')'
    if k == 'nth':
        _, kind, a, b, of_s = p
        s = ':' + sp.name(kind) + '(' + sp.opt() + render_anb(sp, a, b)
        if of_s is not None:
            s += sp.req() + sp.case('of') + sp.req() + (sp.opt() + ',' + sp.opt()).join(complex_(sp, cx) for cx in of_s)
        return s + sp.opt() + ')'
    if k == 'amp':
        return '&'
    if k == 'custom':
        return sp.case(p[1])
    if k == 'lang':
        return ':' + sp.name('lang') + '(' + sp.opt() + (sp.opt() + ',' + sp.opt()).join(sp.value(v) for v in p[1]) + sp.opt() + ')'
    if k == 'dir':
        return ':' + sp.name('dir') + '(' + sp.opt() + sp.case(p[1]) + sp.opt() + ')'
    if k == 'contains':
        return ':' + sp.name(p[1]) + '(' + sp.opt() + (sp.opt() + ',' + sp.opt()).join(sp.value(v) for v in p[2]) + sp.opt() + ')'
    return ':' + sp.name(k)


def complex_(sp, cx):
    s = compound(sp, cx[0])
    for comb, c in cx[1:]:
        s += (sp.req() if comb == ' ' else sp.opt() + comb + sp.opt()) + compound(sp, c)
    return s


def render(lst, seed, level=1.0):
    sp = Speller(seed, level)
    return sp.opt() + (sp.opt() + ',' + sp.opt()).join(complex_(sp, cx) for cx in lst) + sp.opt()
