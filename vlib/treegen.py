"""Concrete document skeletons shared by the harnesses (parsed once at import, outside tracing).

Symbolic strings are injected into `tag.attrs` by the harness conditions and restored afterwards.
"""
from __future__ import annotations
import copy
import soupsieve  # noqa: F401  (must be imported before bs4: C16)
import bs4

FORMS = '''<!DOCTYPE html><html><head><meta http-equiv="content-language" content="en"><title>t</title></head>
<body><!-- c --><form id="f1"><fieldset id="fs" disabled><legend id="lg"><input id="i0"></legend><input id="i1" type="text" placeholder="p"></fieldset>
<input id="r1" type="radio" name="g"><input id="r2" type="radio" name="g" checked><input id="c1" type="checkbox" indeterminate>
<input id="s1" type="submit"><button id="b1" type="submit">x</button><select id="sel" required><optgroup id="og" disabled><option id="o1" selected>a</option></optgroup></select>
<textarea id="ta" dir="auto">שלום</textarea><progress id="pr"></progress><input id="n1" type="number" min="1" max="5" value="3"></form>
<p id="p1" dir="auto" lang="de-DE">text <span id="sp" class="a b">x</span><bdi id="bd">ا</bdi></p><a id="a1" href="#">l</a>
<div id="ce" contenteditable="true"></div><iframe id="fr"><html><body><p id="ip">in</p><input id="r3" type="radio" name="g"></body></html></iframe>
<custom-el id="cu"></custom-el><input id="r4" type="radio" name="h"></body></html>'''

SCRIPTY = '''<html><head><style id="st">p{}</style><script id="sc">x()</script><title id="ti">t</title></head><body><template id="tp">tt<b id="tb"></b></template><ruby id="rb">a<rp id="rp">(</rp><rt id="rt">b</rt></ruby><script id="s2"></script><style id="s3"> </style><textarea id="ta">x</textarea><p id="e"></p><p id="w"> \n</p></body></html>'''

PLAIN = '''<html><body><div id="d1" class="a"><p id="p1" class="a b" title="x y">one<span id="s1">two</span></p><!--c--><p id="p2"></p> <ul id="u"><li id="l1">1</li><li id="l2">2</li><li id="l3">3</li></ul></div><div id="d2" lang=""><p id="p3" lang="en-US">x</p></div></body></html>'''

MULTIROOT = '''<!--lead--><p id="a">x</p>text<div id="b"><span id="c"></span></div><p id="d" class="a"></p>'''

XML = '''<?xml version="1.0" encoding="UTF-8"?><root xmlns="urn:d" xmlns:x="urn:x" xml:lang="en" id="r"><x:a id="xa" x:t="1" t="2">text<![CDATA[cd]]></x:a><b id="b" class="a"/><!--c--><?pi x?><y:z xmlns:y="urn:y" id="yz"><leaf id="lf" xml:lang=""/></y:z></root>'''

XHTML = '''<?xml version="1.0" encoding="UTF-8"?><html xmlns="http://www.w3.org/1999/xhtml" lang="en"><head><title>t</title></head><body><p id="p1" dir="rtl">x</p><form id="f"><input id="i1" type="date" min="2000-01-01" value="1999-01-01"/><input id="i2" type="radio" name="g"/><input id="i3" type="submit"/></form><svg xmlns="http://www.w3.org/2000/svg" id="svg"><circle id="ci"/></svg></body></html>'''

FOREIGN_FORM = '''<?xml version="1.0" encoding="UTF-8"?><html xmlns="http://www.w3.org/1999/xhtml"><head><meta class="seo x" name="d" content="c"/><meta http-equiv="content-language" content="en"/></head><body><form id="f"><x:form xmlns:x="urn:x" id="xf"><input id="i1" type="submit"/><input id="i2" type="radio" name="g"/></x:form><input id="i3" type="submit"/></form><p id="p">t</p></body></html>'''
META_CLASS = '''<html><head><meta class="seo x" name="description" content="x"><meta accesskey="a b" http-equiv="content-language" content="en"></head><body><p id="p">t</p><form><math><form><annotation-xml encoding="text/html"><input type="submit" id="ms"></annotation-xml></form></math><input type="submit" id="s"></form></body></html>'''

# every multi-valued attribute the parsers store as a list (class, rel, rev, accesskey, headers, accept-charset, dropzone,
# archive, sizes) on form controls, links, table cells and the elements state pseudo-classes walk over
LISTY = '''<html class="no-js x"><head><link rel="alternate stylesheet" sizes="16x16 32x32" href="#"><meta class="m n" http-equiv="content-language" content="en"></head>
<body class="b c"><form class="f g" accept-charset="utf-8 latin1" id="f"><fieldset class="fs x" disabled><legend class="l m"><input class="a b" id="i0"></legend>
<input class="form-check-input q" type="radio" name="g" id="r1" accesskey="a b"><input class="form-check-input" type="radio" name="g" id="r2" checked></fieldset>
<input class="c d" type="checkbox" id="c1" accesskey="x y"><input class="s t" type="submit" id="s1"><button class="b1 b2" type="submit" id="b1">x</button>
<select class="sel x" id="sel" required><optgroup class="og x" disabled><option class="o p" selected>a</option></optgroup></select>
<textarea class="ta x" dir="auto" placeholder="p" id="ta"></textarea><input class="n m" type="number" min="1" max="5" value="3" id="n1">
<input class="d e" type="date" min="2000-01-01" value="1999-01-01" id="d1"><progress class="p q" id="pr"></progress><output for="n1 d1" id="o">o</output></form>
<table><tr><td headers="h1 h2" class="td x" id="td">c</td></tr></table><a class="l k" rel="nofollow noopener" rev="made x" href="#" id="a1">l</a>
<p class="pp qq" dir="auto" lang="de" id="p1">text<bdi class="bd x">ا</bdi></p><object archive="a.jar b.jar" class="ob x"></object><div dropzone="copy move" class="dz x" contenteditable="true"></div>
<iframe class="fr x"><html class="ih x"><body class="ib x"><input class="ir x" type="radio" name="g" id="r3"></body></html></iframe></body></html>'''

SPECS = {
    'listy_hp': (LISTY, 'html.parser'),
    'listy_lxml': (LISTY, 'lxml'),
    'listy_h5': (LISTY, 'html5lib'),
    'forms_hp': (FORMS, 'html.parser'),
    'forms_lxml': (FORMS, 'lxml'),
    'forms_h5': (FORMS, 'html5lib'),
    'plain_hp': (PLAIN, 'html.parser'),
    'plain_h5': (PLAIN, 'html5lib'),
    'multiroot_hp': (MULTIROOT, 'html.parser'),
    'scripty_hp': (SCRIPTY, 'html.parser'),
    'scripty_lxml': (SCRIPTY, 'lxml'),
    'scripty_h5': (SCRIPTY, 'html5lib'),
    'xml': (XML, 'xml'),
    'xhtml': (XHTML, 'xml'),
    'empty_hp': ('', 'html.parser'),
    'foreign_form_xml': (FOREIGN_FORM, 'xml'),
    'meta_class_hp': (META_CLASS, 'html.parser'),
    'meta_class_h5': (META_CLASS, 'html5lib'),
    'meta_class_lxml': (META_CLASS, 'lxml'),
}

_CACHE = {}


def doc(name):
    """Shared parsed document (do not mutate without restoring)."""
    if name not in _CACHE:
        markup, parser = SPECS[name]
        _CACHE[name] = bs4.BeautifulSoup(markup, parser)
    return _CACHE[name]


def fresh(name):
    markup, parser = SPECS[name]
    return bs4.BeautifulSoup(markup, parser)


def elements(soup):
    return [t for t in soup.descendants if isinstance(t, bs4.Tag)]


def by_id(soup, i):
    for t in soup.descendants:
        if isinstance(t, bs4.Tag) and t.attrs.get('id') == i:
            return t
    return None


def detached(name, i):
    """A copy of element `i` of document `name` with no parent and no document."""
    el = by_id(fresh(name), i)
    el.extract()
    return el


class inject:
    """Context manager: set attrs (value None = delete) on elements, restore on exit."""

    def __init__(self, pairs):
        self.pairs = pairs  # list of (tag, attr, value)
        self.saved = []

    def __enter__(self):
        for tag, attr, value in self.pairs:
            self.saved.append((tag, attr, tag.attrs.get(attr, _MISSING)))
            if value is None:
                tag.attrs.pop(attr, None)
            else:
                tag.attrs[attr] = value
        return self

    def __exit__(self, *a):
        for tag, attr, old in reversed(self.saved):
            if old is _MISSING:
                tag.attrs.pop(attr, None)
            else:
                tag.attrs[attr] = old
        return False


_MISSING = object()


# ---------------------------------------------------------------------------------------------
# random small trees built through the bs4 API (for the differential checks against vlib/refmodel.py)
import random  # noqa: E402

TVALS = ['x', 'xy', 'x y', 'X', 'x-y', '', 'yx', 'y']


def random_tree(r, kind='html', max_nodes=7):
    """kind: 'html' (html.parser builder), 'xml' (lxml-xml builder), 'detached' (no document object)."""
    soup = bs4.BeautifulSoup('', 'xml' if kind == 'xml' else 'html.parser')
    budget = [r.randint(2, max_nodes)]
    ids = ['i1', 'i2', 'i1']

    def make(depth):
        el = soup.new_tag(r.choice(['a', 'b', 'a', 'b', 'A'] if kind != 'xml' else ['a', 'b', 'A']))
        if kind == 'xml' and r.random() < 0.3:
            el.namespace = r.choice(['urn:n', 'urn:n', 'urn:o'])      # same local name and prefix, another element type
        if r.random() < 0.35:
            el.attrs['id'] = r.choice(ids)
        if r.random() < 0.4:
            el.attrs['class'] = r.sample(['k', 'm'], r.choice([1, 2]))
        if r.random() < 0.5:
            el.attrs[r.choice(['t', 't', 'T', 'type'])] = r.choice(TVALS)
        n = 0 if depth >= 3 else r.choice([0, 0, 1, 2, 3])
        for _ in range(n):
            k = r.random()
            if k < 0.55 and budget[0] > 0:
                budget[0] -= 1
                el.append(make(depth + 1))
            elif k < 0.7:
                el.append(bs4.NavigableString(r.choice([' ', '\n ', 'txt', ' x '])))
            elif k < 0.85:
                el.append(bs4.Comment('c'))
            elif k < 0.93:
                el.append(bs4.CData('cd'))
            else:
                el.append(bs4.ProcessingInstruction('pi'))
        return el

    root = make(0)
    # twins: bs4 Tags compare and hash structurally, so caches keyed on a Tag confuse distinct nodes with identical
    # markup.  About half of the trees get an exact copy of one of their sub-trees grafted somewhere else.
    import copy as _copy
    if r.random() < 0.55:
        inner = [t for t in root.find_all(True)]
        if inner:
            src = r.choice(inner)
            for t in [src] + src.find_all(True):
                if r.random() < 0.7:
                    t.attrs.pop('id', None)
            hosts = [t for t in [root] + inner if t is not src and src not in t.parents and t not in src.find_all(True)]
            if hosts:
                host = r.choice(hosts)
                twin = _copy.copy(src)
                if r.random() < 0.5:
                    host.append(twin)
                else:
                    host.insert(0, twin)
    if kind == 'detached':
        return root, root
    lead = r.random()
    if lead < 0.3:
        soup.append(bs4.Comment('lead'))
    if lead > 0.8:
        soup.append(bs4.Doctype('html'))
    soup.append(root)
    if r.random() < 0.3:
        soup.append(bs4.NavigableString('\n'))
    return soup, root


def twin_tree(r, kind='html'):
    """Two or three differently labelled wrappers that each contain an exact copy of the same sub-tree (distinct nodes,
    identical markup): what a cache keyed on structurally-comparing Tags confuses."""
    import copy as _copy
    soup = bs4.BeautifulSoup('', 'xml' if kind == 'xml' else 'html.parser')
    root = soup.new_tag(r.choice(['a', 'b']))

    def sub(depth):
        el = soup.new_tag(r.choice(['a', 'b']))
        if r.random() < 0.4:
            el.attrs['class'] = r.sample(['k', 'm'], 1)
        if r.random() < 0.4:
            el.attrs[r.choice(['t', 'type'])] = r.choice(TVALS)
        for _ in range(r.choice([1, 1, 2]) if depth < 2 else 0):
            el.append(sub(depth + 1))
        if r.random() < 0.3:
            el.append(bs4.NavigableString(r.choice([' ', 'txt'])))
        return el
    shared = sub(0)
    labels = [dict(id='i1'), dict(id='i2'), {'class': ['k']}, {'class': ['m']}, dict(t='x'), {}]
    r.shuffle(labels)
    for i in range(r.choice([2, 2, 3])):
        w = soup.new_tag(r.choice(['a', 'b']))
        for k, v in labels[i].items():
            w.attrs[k] = v
        if r.random() < 0.4:
            inner = soup.new_tag(r.choice(['a', 'b']))
            w.append(inner)
            inner.append(_copy.copy(shared))
        else:
            w.append(_copy.copy(shared))
        if r.random() < 0.3:
            w.append(soup.new_tag('b'))
        root.append(w)
    if kind == 'detached':
        return root, root
    soup.append(root)
    return soup, root


def ns_siblings_tree():
    """XML: same-named siblings (same prefix: none) in three namespaces and in none, nested once."""
    soup = bs4.BeautifulSoup('', 'xml')
    root = soup.new_tag('r')
    soup.append(root)
    for i, (name, ns) in enumerate([('a', None), ('a', 'urn:n'), ('b', None), ('a', 'urn:o'), ('a', 'urn:n'), ('b', 'urn:n'),
                                    ('a', None)]):
        el = soup.new_tag(name)
        el.namespace = ns
        el.attrs['id'] = 'i%d' % (i % 3)
        root.append(el)
        if i == 1:
            for ns2 in ('urn:n', None, 'urn:n'):
                c = soup.new_tag('a')
                c.namespace = ns2
                el.append(c)
    return soup, None
