"""Correction to CrossHair 0.0.110 (part of the trusted base; see DESIGN.md 2.1).

`relib.unicode_ignorecase_mask(cp)` compiles `chr(cp)` *unescaped* under re.IGNORECASE, so for the
literal characters `\\ . [ ( ) | * + ? ^ $ {` it either raises re.error or computes the mask of
every character.  All soupsieve token patterns are compiled with re.I, so the bug is on the path
of every parser harness.  The replacement escapes the character first.
"""
import re


def install():
    from crosshair.libimpl import relib

    def unicode_ignorecase_mask(cp):
        mask = relib._UNICODE_IGNORECASE_MASKS.get(cp)
        if mask is None:
            chars = relib.caseable_chars()
            matches = re.compile(re.escape(chr(cp)), re.IGNORECASE).findall(chars)
            mask = relib.CharMask([ord(c) for c in matches] or [cp])
            if not mask.covers(cp):
                mask = mask.union(relib.CharMask([cp]))
            relib._UNICODE_IGNORECASE_MASKS[cp] = mask
        return mask

    relib.unicode_ignorecase_mask = unicode_ignorecase_mask
