"""Correction to CrossHair 0.0.110 (part of the trusted base; see DESIGN.md 2.1).

`relib.unicode_ignorecase_mask(cp)` compiles `chr(cp)` *unescaped* under re.IGNORECASE, so for the
literal characters `\\ . [ ( ) | * + ? ^ $ {` it either raises re.error or computes the mask of
every character.  All soupsieve token patterns are compiled with re.I, so the bug is on the path
of every parser harness.  The replacement escapes the character first.
"""
import re


def install():
    from crosshair.libimpl import relib

    def unicode_ignorecase_mask(cp):
        mask = relib._UNICODE_IGNORECASE_MASKS.get(cp)
        if mask is None:
            chars = relib.caseable_chars()
            matches = re.compile(re.escape(chr(cp)), re.IGNORECASE).findall(chars)
            mask = relib.CharMask([ord(c) for c in matches] or [cp])
            if not mask.covers(cp):
                mask = mask.union(relib.CharMask([cp]))
            relib._UNICODE_IGNORECASE_MASKS[cp] = mask
        return mask

    relib.unicode_ignorecase_mask = unicode_ignorecase_mask

    # Second correction: `$` without re.MULTILINE also matches just before a trailing newline at the very end of
    # the string (re documentation); 0.0.110 models it as end-of-string only, which made "confirmed over all paths"
    # miss e.g. RE_TIME.match('12:00\n').
    from crosshair.statespace import context_statespace
    from crosshair.tracers import ResumedTracing
    from crosshair.libimpl.builtinslib import SymbolicInt
    orig = relib._internal_match_patterns
    AT_END = (relib.AT, relib.AT_END)

    def _internal_match_patterns(top_patterns, flags, string, offset, allow_empty=True, ord=ord, chr=chr):
        if len(top_patterns) and top_patterns[0] == AT_END and not (re.MULTILINE & flags):
            space = context_statespace()
            with ResumedTracing():
                remaining = len(string) - offset
            smt_rem = SymbolicInt._coerce_to_smt_sort(remaining)
            if space.smt_fork(smt_rem == 0):
                return _internal_match_patterns(top_patterns[1:], flags, string, offset, allow_empty, ord=ord, chr=chr)
            if space.smt_fork(smt_rem == 1):
                with ResumedTracing():
                    ch = ord(string[offset])
                if space.smt_fork(SymbolicInt._coerce_to_smt_sort(ch) == 10):
                    return _internal_match_patterns(top_patterns[1:], flags, string, offset, allow_empty,
                                                    ord=ord, chr=chr)
            return None
        return orig(top_patterns, flags, string, offset, allow_empty, ord=ord, chr=chr)

    relib._internal_match_patterns = _internal_match_patterns
