"""E1: CrossHair (z3-backed symbolic execution) over harness conditions that call the real code.

Parent side: `run_conditions()` launches one worker process per (condition, part) cell, 16 at a
time, and classifies the CrossHair verdicts.  Worker side (`python -m vlib.e1 worker ...`) runs
CrossHair in-process through its API so that path counts are available.
"""
from __future__ import annotations
import ast
import importlib
import json
import os
import re
import subprocess
import sys
import time
from concurrent.futures import ThreadPoolExecutor
from dataclasses import dataclass, field, asdict

VERIF = os.path.dirname(os.path.dirname(os.path.abspath(__file__)))
PY = os.path.join(VERIF, '.venv', 'bin', 'python')
REPLAY_PY = '/venv/bin/python'
# Cond.timeout['thorough'] is the budget of the deepest run that was ever made of a cell; the registered thorough tier runs
# each cell for this fraction of it (≈ 3 h for all properties on 16 cores).  VERIF_THOROUGH_SCALE=1 restores the full budgets.
THOROUGH_SCALE = float(os.environ.get('VERIF_THOROUGH_SCALE', '0.5'))


@dataclass
class Cond:
    """One contract function of a harness module."""

    fn: str
    desc: str
    bounds: str
    timeout: dict = field(default_factory=lambda: {'quick': 60, 'thorough': 600})
    parts: dict = field(default_factory=lambda: {'quick': 1, 'thorough': 1})
    path_timeout: float | None = None
    expect_exhaustive: bool = False   # informational: probes showed this one exhausts
    twin: bool = True                 # run the vacuity twin


@dataclass
class CellResult:
    fn: str
    part: int
    nparts: int
    verdict: str          # exhaustive | budget_exhausted | counterexample | harness_error
    message: str = ''
    args_repr: list | None = None
    kwargs_repr: dict | None = None
    paths: int = 0
    confirmed_paths: int = 0
    cpu_s: float = 0.0
    wall_s: float = 0.0
    twin: bool = False


def _env(part, nparts, twin, tier, symbolic=True):
    env = dict(os.environ)
    env['PYTHONPATH'] = (os.environ['VERIF_REPO'] + ':' if os.environ.get('VERIF_REPO') else '') + VERIF
    env['PYTHONHASHSEED'] = '0'
    env['VERIF_PART'] = f'{part}/{nparts}'
    env['VERIF_TIER'] = tier
    env.pop('VERIF_TWIN', None)
    env.pop('VERIF_SYMBOLIC', None)
    if symbolic:
        env['VERIF_SYMBOLIC'] = '1'
    if twin:
        env['VERIF_TWIN'] = '1'
    return env


def parse_call(message: str, fn: str):
    """Extract positional/keyword argument reprs from a CrossHair counterexample message."""
    key = 'when calling ' + fn + '('
    i = message.find(key)
    if i < 0:
        return None, None
    j = i + len(key) - 1
    depth = 0
    k = j
    instr = None
    while k < len(message):
        c = message[k]
        if instr:
            if c == '\\':
                k += 1
            elif c == instr:
                instr = None
        elif c in '"\'':
            instr = c
        elif c in '([{':
            depth += 1
        elif c in ')]}':
            depth -= 1
            if depth == 0:
                break
        k += 1
    call_src = fn + message[j:k + 1]
    try:
        node = ast.parse(call_src, mode='eval').body
        args = [ast.unparse(a) for a in node.args]
        kwargs = {kw.arg: ast.unparse(kw.value) for kw in node.keywords}
        for a in list(args) + list(kwargs.values()):
            ast.literal_eval(a)
        return args, kwargs
    except Exception:
        return None, None


def _run_cell(module, cond: Cond, part, nparts, tier, twin, timeout):
    t0 = time.time()
    cmd = [PY, '-m', 'vlib.e1', 'worker', module, cond.fn, str(timeout),
           str(cond.path_timeout if cond.path_timeout else 0)]
    res = CellResult(fn=cond.fn, part=part, nparts=nparts, verdict='harness_error', twin=twin)
    try:
        p = subprocess.run(cmd, env=_env(part, nparts, twin, tier), cwd=VERIF, capture_output=True,
                           text=True, timeout=timeout * 2 + 120)
        out = None
        for line in p.stdout.splitlines():
            if line.startswith('E1RESULT '):
                out = json.loads(line[9:])
        if out is None:
            res.message = 'worker produced no result: ' + (p.stderr or p.stdout)[-2000:]
        else:
            res.paths = out['paths']
            res.confirmed_paths = out['confirmed_paths']
            res.cpu_s = out['cpu_s']
            res.message = out['message']
            st = out['state']
            if st == 'confirmed':
                res.verdict = 'exhaustive'
            elif st == 'cannot_confirm':
                res.verdict = 'budget_exhausted'
            elif st in ('post_fail', 'exec_err', 'post_err'):
                res.verdict = 'counterexample'
                res.args_repr, res.kwargs_repr = parse_call(out['message'], cond.fn)
            else:
                res.verdict = 'harness_error'
    except subprocess.TimeoutExpired:
        res.verdict = 'budget_exhausted'
        res.message = 'worker killed at hard timeout'
    res.wall_s = round(time.time() - t0, 2)
    return res


def run_conditions(module: str, conds: list[Cond], tier: str, jobs: int = 16, seed: int = 0,
                   scale: float = 1.0):
    """Run all (condition, part) cells and their vacuity twins.  Returns list[CellResult]."""
    cells = []
    for c in conds:
        n = c.parts.get(tier, 1)
        t = c.timeout.get(tier, 60) * scale * (THOROUGH_SCALE if tier == 'thorough' else 1.0)
        for part in range(n):
            cells.append((c, part, n, False, t))
        if c.twin:
            cells.append((c, 0, n, True, min(t, 60)))
    # longest first, twins early (cheap)
    order = sorted(range(len(cells)), key=lambda i: (-cells[i][4], (i * 7919 + seed) % 104729))
    results = [None] * len(cells)
    with ThreadPoolExecutor(max_workers=jobs) as ex:
        futs = {i: ex.submit(_run_cell, module, cells[i][0], cells[i][1], cells[i][2], tier, cells[i][3],
                             cells[i][4]) for i in order}
        for i, f in futs.items():
            results[i] = f.result()
    return results


def replay(module: str, fn: str, args_repr, kwargs_repr, part, nparts, tier, timeout=120):
    """Re-execute a candidate on the unmodified library in a plain interpreter (no CrossHair, no stubs).

    Returns (reproduced: bool|None, detail).  None = the replay itself could not run.
    """
    payload = json.dumps({'module': module, 'fn': fn, 'args': args_repr or [], 'kwargs': kwargs_repr or {}})
    try:
        p = subprocess.run([REPLAY_PY, '-m', 'vlib.replay', payload], env=_env(part, nparts, False, tier, False),
                           cwd=VERIF, capture_output=True, text=True, timeout=timeout)
    except subprocess.TimeoutExpired:
        return True, f'replay did not terminate within {timeout}s'
    for line in p.stdout.splitlines():
        if line.startswith('REPLAY '):
            d = json.loads(line[7:])
            return d['reproduced'], d['detail']
    return None, (p.stderr or p.stdout)[-1500:]


# ---------------------------------------------------------------------------------------------
# worker


def _worker(module, fn_name, timeout, path_timeout):
    import collections
    from time import process_time
    from crosshair.core_and_libs import analyze_function
    from crosshair.core import analyze_calltree, ConditionCheckable
    from crosshair.condition_parser import condition_parser
    from crosshair.options import AnalysisOptionSet, AnalysisKind
    from crosshair.statespace import VerificationStatus

    mod = importlib.import_module(module)
    fn = getattr(mod, fn_name)
    stats = collections.Counter()
    kw = dict(per_condition_timeout=float(timeout), report_all=True, stats=stats,
              analysis_kind=[AnalysisKind.PEP316], max_uninteresting_iterations=sys.maxsize)
    if path_timeout:
        kw['per_path_timeout'] = float(path_timeout)
    checkables = analyze_function(fn, AnalysisOptionSet(**kw))
    state, message, confirmed = 'harness_error', 'no checkable condition', 0
    t0 = process_time()
    for ch in checkables:
        if not isinstance(ch, ConditionCheckable):
            msgs = list(ch.analyze())
            state, message = 'syntax_err', '; '.join(m.message for m in msgs)
            break
        options = ch.options
        options.deadline = process_time() + options.per_condition_timeout
        with condition_parser(options.analysis_kind):
            analysis = analyze_calltree(options, ch.conditions)
        confirmed = analysis.num_confirmed_paths
        vs = analysis.verification_status
        if analysis.messages:
            m = analysis.messages[0]
            state, message = m.state.value, m.message
        elif vs is VerificationStatus.CONFIRMED:
            state, message = 'confirmed', 'Confirmed over all paths.'
        elif vs is VerificationStatus.UNKNOWN:
            state, message = 'cannot_confirm', 'Not confirmed.'
        else:
            state, message = 'harness_error', f'status {vs}'
    print('E1RESULT ' + json.dumps({
        'state': state, 'message': message, 'paths': stats.get('num_paths', 0),
        'confirmed_paths': confirmed, 'cpu_s': round(process_time() - t0, 2)}))


if __name__ == '__main__':
    if sys.argv[1] == 'worker':
        _worker(sys.argv[2], sys.argv[3], float(sys.argv[4]), float(sys.argv[5]))
