"""Per-check bookkeeping: obligations, candidates, replay, known findings, evidence, exit status."""
from __future__ import annotations
import hashlib
import json
import os
import sys
import time

from . import e1

VERIF = os.path.dirname(os.path.dirname(os.path.abspath(__file__)))
EVID = os.path.join(VERIF, 'evidence')
REPLAYS = os.path.join(EVID, 'replays')
KNOWN = os.path.join(VERIF, 'known_findings.json')

_SAFE = {'len': len, 'any': any, 'all': all, 'str': str, 'int': int, 'isinstance': isinstance,
         'list': list, 'tuple': tuple, 'set': set, 'sorted': sorted, 'True': True, 'False': False, 'None': None}


class Ctx:
    def __init__(self, pid: str, tier: str, seed: int, level: str = 'model_checking'):
        self.pid = pid
        self.tier = tier
        self.seed = seed
        self.level = level
        self.t0 = time.time()
        self.obligations = []       # dicts: engine, name, verdict, ...
        self.functions = set()      # real functions driven / encoded
        self.bounds = []
        self.assumptions = []
        self.samples = []
        self.violations = []
        self.known_hits = []
        self.spurious = []
        self.harness_errors = []
        self.evaluations = 0
        self.distinct = 0
        self.solver_s = 0.0
        self.z3_queries = {'issued': 0, 'sat': 0, 'unsat': 0, 'unknown': 0}
        self.extra = {}
        self._nreplay = 0
        try:
            self.known = json.load(open(KNOWN))
        except FileNotFoundError:
            self.known = {'findings': [], 'fixed': []}
        os.makedirs(REPLAYS, exist_ok=True)
        for f in os.listdir(REPLAYS):
            if f.startswith(pid + '-'):
                os.unlink(os.path.join(REPLAYS, f))

    # ------------------------------------------------------------------ bookkeeping
    def log(self, *a):
        print(f'[{self.pid} {time.time() - self.t0:6.1f}s]', *a, flush=True)

    def assume(self, *texts):
        for t in texts:
            if t not in self.assumptions:
                self.assumptions.append(t)

    def sample(self, obj):
        if len(self.samples) < 12:
            self.samples.append(obj)

    def obligation(self, **kw):
        self.obligations.append(kw)

    # ------------------------------------------------------------------ candidates
    def _known_match(self, rec):
        for k in self.known.get('findings', []):
            if k.get('property') != self.pid or k.get('status', 'open') != 'open':
                continue
            env = dict(_SAFE)
            env.update(fn=rec.get('fn'), args=rec.get('args'), kw=rec.get('kwargs'), detail=rec.get('detail', ''),
                       rec=rec)
            try:
                if eval(k['match'], {'__builtins__': {}}, env):  # noqa: S307 (restricted, committed file)
                    return k
            except Exception:
                continue
        return None

    def report(self, rec: dict, reproduced: bool | None):
        """Record a candidate after replay.  rec has at least fn/args/detail."""
        if reproduced is None:
            self.harness_errors.append(f'replay could not run for {rec.get("fn")}: {rec.get("detail")}')
            return
        if not reproduced:
            self.spurious.append(rec)
            self.log('candidate did NOT reproduce on the real code (spurious, not reported):', rec.get('fn'),
                     rec.get('args_repr'))
            return
        k = self._known_match(rec)
        if k is not None:
            line = f'KNOWN-FINDING: property={self.pid} {k["what"]}'
            if line not in self.known_hits:
                self.known_hits.append(line)
                print(line, flush=True)
            return
        self._nreplay += 1
        path = os.path.join(REPLAYS, f'{self.pid}-{self._nreplay}.json')
        rec = dict(rec)
        rec['property'] = self.pid
        rec['how'] = f'cd /verif && ./check {self.pid} --replay {path}'
        with open(path, 'w') as f:
            json.dump(rec, f, indent=1, default=repr)
        self.violations.append(rec)
        print(f'VIOLATION property={self.pid} replay={path}', flush=True)
        self.log('  ->', rec.get('fn'), rec.get('args_repr'), rec.get('detail'))

    # ------------------------------------------------------------------ E1
    def run_e1(self, module: str, conds, functions=(), scale: float = 1.0):
        import ast
        self.functions.update(functions)
        results = e1.run_conditions(module, conds, self.tier, seed=self.seed, scale=scale)
        by = {c.fn: c for c in conds}
        reached = {}
        for r in results:
            if not r.twin:
                reached[r.fn] = reached.get(r.fn, 0) + r.confirmed_paths
            elif r.verdict == 'counterexample':
                reached[r.fn] = reached.get(r.fn, 0) + 1
        for r in results:
            c = by[r.fn]
            if r.twin:
                if r.verdict != 'counterexample' and reached.get(r.fn, 0) > 0:
                    # the twin did not finish a path in its short budget, but the cells of the same condition did complete
                    # paths that satisfied the precondition and evaluated the postcondition: not vacuous
                    self.extra.setdefault('twins_inconclusive', []).append(
                        f'{module}.{r.fn} (twin {r.verdict}; {reached[r.fn]} paths of the condition itself reached the postcondition)')
                elif r.verdict == 'budget_exhausted':
                    # the twin ran out of its (short) budget before one path completed: not evidence of vacuity
                    self.extra.setdefault('twins_inconclusive', []).append(f'{module}.{r.fn}')
                elif r.verdict != 'counterexample':
                    self.harness_errors.append(
                        f'vacuity twin of {module}.{r.fn} found no path reaching the assertion ({r.verdict}: '
                        f'{r.message[:300]})')
                else:
                    self.extra['twins_reached'] = self.extra.get('twins_reached', 0) + 1
                continue
            self.evaluations += r.paths
            self.distinct += r.confirmed_paths
            self.solver_s += r.cpu_s
            ob = dict(engine='E1/CrossHair', condition=f'{module}.{r.fn}', part=f'{r.part}/{r.nparts}',
                      desc=c.desc, bounds=c.bounds, verdict=r.verdict, paths=r.paths,
                      confirmed_paths=r.confirmed_paths, cpu_s=r.cpu_s)
            if r.verdict == 'harness_error' and 'Unable to meet precondition' in r.message and reached.get(r.fn, 0) > 0:
                # every path of this cell was cut off by the per-path / per-condition budget; the precondition is satisfiable
                # (the twin or another cell of the condition reached the postcondition): budget exhaustion, not vacuity
                r.verdict = 'budget_exhausted'
                ob['verdict'] = 'budget_exhausted'
                ob['note'] = 'no path completed within the budget (CrossHair: "Unable to meet precondition")'
            if r.verdict == 'harness_error':
                self.harness_errors.append(f'{module}.{r.fn} part {r.part}: {r.message[:500]}')
            if r.verdict == 'counterexample':
                ob['message'] = r.message[:600]
                if r.args_repr is None:
                    self.harness_errors.append(f'could not parse counterexample of {r.fn}: {r.message[:400]}')
                else:
                    ok, detail = e1.replay(module, r.fn, r.args_repr, r.kwargs_repr, r.part, r.nparts, self.tier)
                    rec = dict(engine='E1', module=module, fn=r.fn, args_repr=r.args_repr,
                               kwargs_repr=r.kwargs_repr, part=r.part, nparts=r.nparts,
                               args=[ast.literal_eval(a) for a in r.args_repr],
                               kwargs={k: ast.literal_eval(v) for k, v in (r.kwargs_repr or {}).items()},
                               crosshair=r.message[:600], detail=detail)
                    ob['replay'] = {'reproduced': ok, 'detail': detail}
                    self.report(rec, ok)
            self.obligations.append(ob)
            self.sample({'condition': f'{module}.{r.fn}', 'contract': c.desc, 'bounds': c.bounds,
                         'verdict': r.verdict, 'paths': r.paths})
        return results

    # ------------------------------------------------------------------ lemmas
    def lemma(self, fn, name):
        """Run an E2 lemma.  A lemma whose subject has been restructured away (the pattern it encodes is no longer where
        the encoder looks) is inconclusive, not an alarm and not a crash: the E1 conditions of the same check decide."""
        try:
            fn(self)
        except (AttributeError, KeyError, IndexError, TypeError, ValueError) as e:
            self.obligation(engine='E2/z3', name=name, verdict='inconclusive',
                            reason=f'lemma could not be encoded from the current source: {type(e).__name__}: {e}'[:300])
            self.extra.setdefault('lemmas_not_encodable', []).append(name)
            self.log(f'lemma {name} could not be encoded from the current source ({type(e).__name__}: {e}); inconclusive')

    # ------------------------------------------------------------------ z3 helper
    def z3_check(self, solver, name: str, timeout_ms: int = 60000):
        """Run solver.check(); account for it; return 'sat'|'unsat'|'unknown'."""
        solver.set('timeout', timeout_ms)
        t = time.time()
        r = str(solver.check())
        dt = time.time() - t
        self.solver_s += dt
        self.z3_queries['issued'] += 1
        self.z3_queries[r if r in ('sat', 'unsat') else 'unknown'] += 1
        self.evaluations += 1
        if r in ('sat', 'unsat'):
            self.distinct += 1
        return r

    # ------------------------------------------------------------------ finish
    def finish(self, explanation: str = '', exhaustive: bool = False) -> int:
        verdicts = {}
        for o in self.obligations:
            verdicts[o['verdict']] = verdicts.get(o['verdict'], 0) + 1
        cov = {
            'evaluations': max(self.evaluations, 0),
            'distinct_nontrivial': self.distinct,
            'rule': ('evaluations = symbolic execution paths explored by CrossHair (each path is one distinct sequence '
                     'of solver-decided branch outcomes through the real code, standing for all inputs that take it) '
                     'plus z3 queries issued; distinct_nontrivial = paths that satisfied the precondition and ran '
                     'to the evaluated postcondition, plus z3 queries answered sat/unsat'),
            'samples': self.samples or [{'note': 'no obligation recorded'}],
            'exhaustive': exhaustive,
            'explanation': explanation,
            'functions_encoded': sorted(self.functions),
            'bounds': self.bounds,
            'obligations': len(self.obligations),
            'obligation_verdicts': verdicts,
            'obligation_list': self.obligations,
            'z3_queries': self.z3_queries,
            'solver_cpu_s': round(self.solver_s, 2),
            'candidates_spurious': len(self.spurious),
            'known_findings_hit': self.known_hits,
            'harness_errors': self.harness_errors,
        }
        cov.update(self.extra)
        ev = {
            'property_id': self.pid, 'tier': self.tier, 'seed': self.seed, 'level': self.level,
            'coverage': cov, 'assumptions': self.assumptions, 'wall_s': round(time.time() - self.t0, 2),
            'violations': len(self.violations),
        }
        os.makedirs(EVID, exist_ok=True)
        with open(os.path.join(EVID, f'{self.pid}.json'), 'w') as f:
            json.dump(ev, f, indent=1, default=repr)
        self.log(f'obligations={len(self.obligations)} {verdicts} paths/queries={self.evaluations} '
                 f'violations={len(self.violations)} known={len(self.known_hits)} '
                 f'harness_errors={len(self.harness_errors)}')
        if self.violations:
            return 1
        if self.harness_errors:
            for h in self.harness_errors:
                self.log('HARNESS ERROR:', h)
            return 2
        return 0


def digest(s: str) -> str:
    return hashlib.sha1(s.encode('utf8', 'surrogatepass')).hexdigest()[:12]
