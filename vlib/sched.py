"""E3: thread schedules as solver variables.

1. discover(): every pre-existing mutable object reachable from the soupsieve modules' globals and class attributes is
   re-classed (instances of Python classes) or replaced (dict / list / set globals) by a recording variant.
2. trace(fn): run one API call single-threaded and return its sequence of accesses to those objects.
3. find_interference(traces): z3 (QF_LIA) — integer time stamps per event, program order, all distinct; a read of
   location L in thread A *reads from* the last earlier write to L.  Query: some read returns a value written by
   another thread that differs from the value the same read saw when the call ran alone.
4. enforce(schedule, fns): replay the model on real threads; the recording hooks block until it is their turn.
"""
from __future__ import annotations
import sys
import threading
import types
import z3

_LOG = None            # list being recorded into, or None
_GATE = None           # Scheduler during replay, or None
_TLS = threading.local()


def _val(v):
    try:
        return repr(v)[:80]
    except Exception:  # noqa: BLE001
        return '<unrepr>'


def _event(op, oid, attr, value):
    g = _GATE
    if g is not None:
        g.turn()
    if _LOG is not None:
        _LOG.append((op, oid, attr, _val(value)))


def _rec_class(cls):
    def __setattr__(self, name, value):
        _event('w', id(self), name, value)
        cls.__setattr__(self, name, value)

    def __getattribute__(self, name):
        v = cls.__getattribute__(self, name)
        if not name.startswith('__') and not callable(v) and name in _instance_dict(self, cls):
            _event('r', id(self), name, v)
        return v
    return type('Rec' + cls.__name__, (cls,), {'__setattr__': __setattr__, '__getattribute__': __getattribute__})


def _instance_dict(obj, cls):
    try:
        return cls.__getattribute__(obj, '__dict__')
    except AttributeError:
        return {}


class RecMeta(type):
    """Metaclass of the recording subclasses that replace the analysed modules' classes (a class object's own
    __class__ cannot be reassigned): records reads and writes of class-level data attributes, i.e. state shared by
    every instance and every thread."""

    def __setattr__(cls, name, value):
        _event('w', 'class:' + type.__getattribute__(cls, '__qualname__'), name, value)
        type.__setattr__(cls, name, value)

    def __getattribute__(cls, name):
        v = type.__getattribute__(cls, name)
        if not name.startswith('__') and not callable(v) and not isinstance(v, (property, classmethod, staticmethod)):
            for k in type.__getattribute__(cls, '__mro__'):
                if name in vars(k):
                    if k.__module__.startswith('soupsieve'):
                        _event('r', 'class:' + k.__qualname__, name, v)
                    break
        return v


def _summary(c):
    try:
        return repr(c)[:80]
    except Exception:  # noqa: BLE001
        return '<container>'


def _oid(c):
    """Location name of a recorded container: containers handed out by a wrapped functools.lru_cache carry a stable
    name (function + arguments), because the object itself is re-created whenever the cache is purged."""
    return c.__dict__.get('_soid') or id(c)


class RecDict(dict):
    # every access to a recorded container is an access to the one location (container, '*')
    def __getitem__(self, k):
        _event('r', _oid(self), '*', _summary(self))
        return dict.__getitem__(self, k)

    def get(self, k, d=None):
        _event('r', _oid(self), '*', _summary(self))
        return dict.get(self, k, d)

    def __contains__(self, k):
        _event('r', _oid(self), '*', _summary(self))
        return dict.__contains__(self, k)

    def __iter__(self):
        _event('r', _oid(self), '*', _summary(self))
        return dict.__iter__(self)

    def items(self):
        _event('r', _oid(self), '*', _summary(self))
        return dict.items(self)

    def __setitem__(self, k, v):
        _event('w', _oid(self), '*', ('set', repr(k), _val(v)))
        dict.__setitem__(self, k, v)

    def __delitem__(self, k):
        # deleting reads the presence of the key first: a double delete is a read of another thread's write
        _event('r', _oid(self), '*', ('has', repr(k), dict.__contains__(self, k)))
        _event('w', _oid(self), '*', ('del', repr(k)))
        dict.__delitem__(self, k)

    def __len__(self):
        _event('r', _oid(self), '*', ('len', dict.__len__(self)))
        return dict.__len__(self)

    def pop(self, *a):
        _event('r', _oid(self), '*', ('has', repr(a[0]), dict.__contains__(self, a[0])))
        _event('w', _oid(self), '*', ('pop', repr(a[0])))
        return dict.pop(self, *a)

    def setdefault(self, k, d=None):
        if k not in self:
            _event('w', _oid(self), '*', ('setdefault', repr(k)))
        return dict.setdefault(self, k, d)

    def update(self, *a, **kw):
        _event('w', _oid(self), '*', '<update>')
        dict.update(self, *a, **kw)

    def clear(self):
        _event('w', _oid(self), '*', '<clear>')
        dict.clear(self)


class RecList(list):
    def _w(self, what):
        _event('w', _oid(self), '*', what)

    def __iter__(self):
        _event('r', _oid(self), '*', _summary(self))
        return list.__iter__(self)

    def __getitem__(self, i):
        _event('r', _oid(self), '*', _summary(self))
        return list.__getitem__(self, i)

    def __len__(self):
        _event('r', _oid(self), '*', _summary(self))
        return list.__len__(self)

    def __contains__(self, x):
        _event('r', _oid(self), '*', _summary(self))
        return list.__contains__(self, x)

    def append(self, x):
        self._w('<append>')
        list.append(self, x)

    def extend(self, x):
        self._w('<extend>')
        list.extend(self, x)

    def __setitem__(self, i, v):
        self._w('<setitem>')
        list.__setitem__(self, i, v)

    def __delitem__(self, i):
        self._w('<delitem>')
        list.__delitem__(self, i)

    def pop(self, *a):
        self._w('<pop>')
        return list.pop(self, *a)

    def insert(self, i, x):
        self._w('<insert>')
        list.insert(self, i, x)

    def clear(self):
        self._w('<clear>')
        list.clear(self)


class RecSet(set):
    def __contains__(self, x):
        _event('r', _oid(self), '*', _summary(self))
        return set.__contains__(self, x)

    def __iter__(self):
        _event('r', _oid(self), '*', _summary(self))
        return set.__iter__(self)

    def add(self, x):
        _event('w', _oid(self), '*', ('add', repr(x)))
        set.add(self, x)

    def discard(self, x):
        _event('w', _oid(self), '*', ('discard', repr(x)))
        set.discard(self, x)

    def remove(self, x):
        _event('r', _oid(self), '*', ('has', repr(x), set.__contains__(self, x)))
        _event('w', _oid(self), '*', ('remove', repr(x)))
        set.remove(self, x)

    def update(self, *a):
        _event('w', _oid(self), '*', '<update>')
        set.update(self, *a)

    def clear(self):
        _event('w', _oid(self), '*', '<clear>')
        set.clear(self)


def _is_value_class(v):
    """Immutable IR value classes (slotted, pickled by class identity) are left alone."""
    return any(k.__name__ in ('Immutable', 'ImmutableDict') for k in v.__mro__)


def discover(modules):
    """Instrument the shared mutable state of `modules`.  Returns a description list."""
    found = []
    seen = set()

    def handle_instance(obj, where):
        if id(obj) in seen:
            return
        seen.add(id(obj))
        cls = type(obj)
        if cls.__module__ not in [m.__name__ for m in modules] or cls.__name__.startswith('Rec'):
            return
        if hasattr(cls, '__slots__') and not hasattr(obj, '__dict__'):
            return          # slotted immutable value objects (Immutable subclasses) reject mutation themselves
        try:
            obj.__class__ = _rec_class(cls)
            found.append((where, cls.__name__, 'instance'))
        except TypeError:
            return
        for k, v in list(_instance_dict(obj, cls).items()):
            walk(v, f'{where}.{k}', obj, k)

    def walk(v, where, owner=None, key=None):
        if isinstance(v, (str, bytes, int, float, bool, type(None), types.FunctionType, types.ModuleType, type,
                          frozenset)) or id(v) in seen:
            return
        if type(v) is dict:
            new = RecDict(v)
            _rebind(owner, key, new)
            seen.add(id(new))
            found.append((where, 'dict', 'container'))
            for k2, v2 in list(new.items()):
                walk(v2, f'{where}[{k2!r}]')
        elif type(v) is list:
            new = RecList(v)
            _rebind(owner, key, new)
            seen.add(id(new))
            found.append((where, 'list', 'container'))
            for i, v2 in enumerate(new):
                walk(v2, f'{where}[{i}]')
        elif type(v) is set:
            new = RecSet(v)
            _rebind(owner, key, new)
            seen.add(id(new))
            found.append((where, 'set', 'container'))
        elif isinstance(v, tuple):
            for i, v2 in enumerate(v):
                walk(v2, f'{where}[{i}]')
        elif hasattr(v, '__dict__') or hasattr(type(v), '__slots__'):
            handle_instance(v, where)

    def _rebind(owner, key, new):
        if owner is None:
            return
        if isinstance(owner, types.ModuleType) or isinstance(owner, type):
            setattr(owner, key, new)
        else:
            object.__setattr__(owner, key, new) if not isinstance(owner, dict) else dict.__setitem__(owner, key, new)

    def defaults(fn, where):
        """Mutable default arguments are state shared by every call."""
        fn = getattr(fn, '__func__', fn)
        if not isinstance(fn, types.FunctionType):
            return
        if fn.__defaults__:
            new = []
            for i, d in enumerate(fn.__defaults__):
                if type(d) in (list, dict, set):
                    d = {list: RecList, dict: RecDict, set: RecSet}[type(d)](d)
                    seen.add(id(d))
                    found.append((f'{where} default #{i}', type(d).__name__, 'default argument'))
                new.append(d)
            fn.__defaults__ = tuple(new)
        if fn.__kwdefaults__:
            for k2, d in list(fn.__kwdefaults__.items()):
                if type(d) in (list, dict, set):
                    fn.__kwdefaults__[k2] = {list: RecList, dict: RecDict, set: RecSet}[type(d)](d)
                    found.append((f'{where} default {k2}', type(d).__name__, 'default argument'))

    for m in modules:
        for k, v in list(vars(m).items()):
            if k.startswith('__'):
                continue
            if isinstance(v, type) and v.__module__ == m.__name__:
                for ck, cv in list(vars(v).items()):
                    if not ck.startswith('__'):
                        walk(cv, f'{m.__name__}.{v.__name__}.{ck}', v, ck)
                    defaults(cv, f'{m.__name__}.{v.__name__}.{ck}')
                if type(v) is type and not issubclass(v, (BaseException,)) and not _is_value_class(v):
                    try:
                        sub = RecMeta(v.__name__, (v,), {'__module__': v.__module__, '__qualname__': v.__qualname__,
                                                         '__doc__': v.__doc__})
                        setattr(m, k, sub)
                        found.append((f'{m.__name__}.{v.__name__}', 'class', 'class attributes (recording subclass)'))
                    except TypeError:
                        pass
            elif isinstance(v, types.FunctionType) and v.__module__ == m.__name__:
                defaults(v, f'{m.__name__}.{k}')
            else:
                walk(v, f'{m.__name__}.{k}', m, k)
    return found


def wrap_caches(modules):
    """Results of functools.lru_cache'd module functions are shared by every caller with equal arguments: hand mutable
    container results out as recording containers named after the call.  Returns a description list."""
    import functools
    found = []
    for m in modules:
        for k, v in list(vars(m).items()):
            if not (hasattr(v, 'cache_parameters') and hasattr(v, '__wrapped__')):
                continue
            if getattr(v.__wrapped__, '__module__', None) != m.__name__:
                continue

            def mk(inner, name):
                @functools.wraps(inner)
                def wrapped(*a, **kw):
                    r = inner(*a, **kw)
                    if type(r) in (dict, list, set):
                        r = {dict: RecDict, list: RecList, set: RecSet}[type(r)](r)
                        r.__dict__['_soid'] = f'lru:{name}{_val((a, kw))}'
                    return r
                return wrapped
            params = v.cache_parameters()
            new = functools.lru_cache(maxsize=params['maxsize'], typed=params['typed'])(mk(v.__wrapped__, f'{m.__name__}.{k}'))
            setattr(m, k, new)
            found.append((f'{m.__name__}.{k}', 'lru_cache', 'results shared between callers'))
    return found


def class_snapshot(modules):
    return {(m.__name__, k, a): id(x) for m in modules for k, v in vars(m).items()
            if isinstance(v, type) and v.__module__ == m.__name__ for a, x in vars(v).items() if not a.startswith('__')}


def globals_snapshot(modules):
    return {(m.__name__, k): id(v) for m in modules for k, v in vars(m).items() if not k.startswith('__')}


def trace(fn):
    """Run fn() alone; return (events, result) where result is ('ok', value) or ('exc', type name)."""
    global _LOG
    _LOG = []
    try:
        try:
            res = ('ok', fn())
        except Exception as e:  # noqa: BLE001
            res = ('exc', type(e).__name__)
    finally:
        ev, _LOG = _LOG, None
    return ev, res


def _encode(traces, timeout_ms):
    s = z3.Solver()
    s.set('timeout', timeout_ms)
    ts = [[z3.Int(f't{t}_{i}') for i in range(len(tr))] for t, tr in enumerate(traces)]
    allv = [v for row in ts for v in row]
    if not allv:
        return None, ts, []
    s.add(z3.Distinct(*allv))
    for row in ts:
        for i in range(len(row)):
            s.add(row[i] >= 0, row[i] < len(allv))
            if i:
                s.add(row[i - 1] < row[i])
    writes = {}
    for t, tr in enumerate(traces):
        for i, (op, oid, attr, val) in enumerate(tr):
            if op == 'w':
                writes.setdefault((oid, attr), []).append((t, i, val))
                if attr == '*':
                    writes.setdefault((oid, None), []).append((t, i, val))
    cands = []
    for t, tr in enumerate(traces):
        for i, (op, oid, attr, val) in enumerate(tr):
            if op != 'r':
                continue
            ws = writes.get((oid, attr), []) + writes.get((oid, None), [])
            for (u, j, wval) in ws:
                if u == t or wval == val:
                    continue
                between = []
                for (u2, j2, _) in ws:
                    if (u2, j2) != (u, j):
                        between.append(z3.And(ts[u][j] < ts[u2][j2], ts[u2][j2] < ts[t][i]))
                cands.append(((t, i, u, j), z3.And(ts[u][j] < ts[t][i],
                                                   z3.Not(z3.Or(*between)) if between else z3.BoolVal(True))))
    return s, ts, cands


def _order(m, ts, traces):
    order = sorted(((m.eval(ts[t][i], model_completion=True).as_long(), t, i)
                    for t in range(len(traces)) for i in range(len(traces[t]))))
    return [(t, i) for _, t, i in order]


def find_interference(traces, timeout_ms=30000):
    """traces: list (one per thread) of event lists.  Returns (verdict, schedule, info); schedule = list of
    (thread, index) in time order for `sat`."""
    s, ts, cands = _encode(traces, timeout_ms)
    if s is None:
        return 'unsat', None, 'no shared accesses'
    if not cands:
        return 'unsat', None, 'no read can observe a foreign write of a different value'
    s.add(z3.Or(*[c for _, c in cands]))
    r = str(s.check())
    if r != 'sat':
        return r, None, f'{len(cands)} read-from candidates'
    return 'sat', _order(s.model(), ts, traces), f'{len(cands)} read-from candidates'


def find_interferences(traces, limit=8, timeout_ms=30000):
    """Several schedules per combination: one z3 query per read-from candidate (earliest events first), each asking for
    the least perturbed interleaving that realises it — the reading thread runs undisturbed up to the read, the writing
    thread runs up to the write, the read follows.  Returns (verdict, [schedule, ...], info)."""
    s, ts, cands = _encode(traces, timeout_ms)
    if s is None:
        return 'unsat', [], 'no shared accesses'
    if not cands:
        return 'unsat', [], 'no read can observe a foreign write of a different value'
    out, seen, unknown = [], set(), 0
    for (t, i, u, j), c in sorted(cands, key=lambda x: (x[0][1] + x[0][3], x[0]))[:limit * 3]:
        if len(out) >= limit:
            break
        s.push()
        s.add(c)
        if i > 0:
            s.add(ts[t][i - 1] < ts[u][0])          # the reader is not disturbed before the read
        s.add(*[ts[t][i] < ts[u][k] for k in range(j + 1, len(traces[u]))][:1])   # the read follows the write directly
        r = str(s.check())
        if r == 'sat':
            sch = _order(s.model(), ts, traces)
            key = tuple(sch)
            if key not in seen:
                seen.add(key)
                out.append(sch)
        elif r != 'unsat':
            unknown += 1
        s.pop()
    if not out:
        # the canonical shapes were infeasible (three threads): fall back to the unconstrained query
        v, sch, info = find_interference(traces, timeout_ms)
        return v, ([sch] if sch else []), info
    return 'sat', out, f'{len(cands)} read-from candidates, {len(out)} schedules' + (f', {unknown} unknown' if unknown else '')


class Scheduler:
    """Lock-step enforcement of a total order over the recorded shared accesses."""

    def __init__(self, schedule):
        self.schedule = list(schedule)
        self.pos = 0
        self.cv = threading.Condition()
        self.counts = {}
        self.broken = False

    def turn(self):
        t = getattr(_TLS, 'idx', None)
        if t is None or self.broken:
            return
        with self.cv:
            i = self.counts.get(t, 0)
            self.counts[t] = i + 1
            while not self.broken and self.pos < len(self.schedule) and self.schedule[self.pos] != (t, i):
                if (t, i) not in self.schedule[self.pos:]:
                    break          # this thread diverged from its recorded trace: stop steering it
                if not self.cv.wait(timeout=3):
                    self.broken = True
                    break
            if self.pos < len(self.schedule) and self.schedule[self.pos] == (t, i):
                self.pos += 1
            self.cv.notify_all()

    def done(self, t):
        with self.cv:
            # drop the remaining events of a finished thread so that the others are not blocked
            self.schedule = self.schedule[:self.pos] + [e for e in self.schedule[self.pos:] if e[0] != t]
            self.cv.notify_all()


def enforce(schedule, fns):
    """Run fns[t] in thread t under the schedule.  Returns list of ('ok', value) / ('exc', type name)."""
    global _GATE
    sch = Scheduler(schedule)
    results = [None] * len(fns)

    def run(t):
        _TLS.idx = t
        try:
            results[t] = ('ok', fns[t]())
        except Exception as e:  # noqa: BLE001
            results[t] = ('exc', type(e).__name__ + ': ' + str(e)[:80])
        finally:
            _TLS.idx = None
            sch.done(t)
    _GATE = sch
    try:
        th = [threading.Thread(target=run, args=(t,)) for t in range(len(fns))]
        for x in th:
            x.start()
        for x in th:
            x.join(20)
    finally:
        _GATE = None
    return results
