"""Selector pools generated from the live grammar tables of the imported soupsieve."""
from __future__ import annotations
import itertools
from soupsieve import css_parser as cp

FUNCTIONAL = {
    ':is': [':is(p, .a)', ':is(div > p, #l2)'],
    ':where': [':where(p, .a)'],
    ':matches': [':matches(p, .a)'],
    ':not': [':not(.a)', ':not(p, div)'],
    ':has': [':has(> p)', ':has(+ p)', ':has(~ li)', ':has(span)'],
    ':contains': [':contains(x)'],
    ':-soup-contains': [':-soup-contains("x", t)'],
    ':-soup-contains-own': [':-soup-contains-own(te)'],
    ':current': [':current(p)'],
    ':host': [':host(p)'],
    ':host-context': [':host-context(p)'],
    ':dir': [':dir(ltr)', ':dir(rtl)'],
    ':lang': [':lang(en)', ':lang("de-*", fr)', ':lang("")', ':lang("*-US")'],
    ':nth-child': [':nth-child(2n+1)', ':nth-child(-n+2 of .a)', ':nth-child(odd)'],
    ':nth-last-child': [':nth-last-child(2)', ':nth-last-child(n of p)'],
    ':nth-of-type': [':nth-of-type(even)'],
    ':nth-last-of-type': [':nth-last-of-type(-n+2)'],
}


def every_pseudo():
    """At least one selector per pseudo-class name the live parser supports."""
    out = []
    for name in sorted(cp.PSEUDO_SIMPLE | cp.PSEUDO_SIMPLE_NO_MATCH):
        out.append(name)
    for name in sorted(cp.PSEUDO_COMPLEX | cp.PSEUDO_COMPLEX_NO_MATCH | cp.PSEUDO_SPECIAL):
        out.extend(FUNCTIONAL.get(name, []))
    seen = []
    for s in out:
        if s not in seen:
            seen.append(s)
    return seen


BASIC = [
    '*', 'p', 'div', 'P', '#p1', '.a', '.a.b', '[id]', '[class~=a]', '[title="x y"]', '[title^=x]', '[title$=y]',
    '[title*=" "]', '[lang|=en]', '[id!=p1]', '[type=TEXT]', '[type="text" s]', '[id="P1" i]',
    'div p', 'div > p', 'p + p', 'p ~ ul', 'ul > li', 'li + li', 'li ~ li', 'div, p', 'html > body',
    ':root', ':empty', ':first-child', ':last-child', ':only-child', ':first-of-type', ':last-of-type',
    ':only-of-type', ':scope', ':scope > *', '& > p', 'p:is(.a, #p2)', ':not(div):not(p)', 'div:has(> p.a)',
    'ul:has(li + li)', ':is(div, ul) > :first-child', 'x|a', '*|a', '|b', '[x|t]', '[*|t]', '[|t]', 'svg|circle',
]


def general_pool():
    seen = []
    for s in BASIC + every_pseudo():
        if s not in seen:
            seen.append(s)
    return seen
