"""Selector pools generated from the live grammar tables of the imported soupsieve."""
from __future__ import annotations
import itertools
from soupsieve import css_parser as cp

FUNCTIONAL = {
    ':is': [':is(p, .a)', ':is(div > p, #l2)'],
    ':where': [':where(p, .a)'],
    ':matches': [':matches(p, .a)'],
    ':not': [':not(.a)', ':not(p, div)'],
    ':has': [':has(> p)', ':has(+ p)', ':has(~ li)', ':has(span)'],
    ':contains': [':contains(x)'],
    ':-soup-contains': [':-soup-contains("x", t)'],
    ':-soup-contains-own': [':-soup-contains-own(te)'],
    ':current': [':current(p)'],
    ':host': [':host(p)'],
    ':host-context': [':host-context(p)'],
    ':dir': [':dir(ltr)', ':dir(rtl)'],
    ':lang': [':lang(en)', ':lang("de-*", fr)', ':lang("")', ':lang("*-US")'],
    ':nth-child': [':nth-child(2n+1)', ':nth-child(-n+2 of .a)', ':nth-child(odd)'],
    ':nth-last-child': [':nth-last-child(2)', ':nth-last-child(n of p)'],
    ':nth-of-type': [':nth-of-type(even)'],
    ':nth-last-of-type': [':nth-last-of-type(-n+2)'],
}


def every_pseudo():
    """At least one selector per pseudo-class name the live parser supports."""
    out = []
    for name in sorted(cp.PSEUDO_SIMPLE | cp.PSEUDO_SIMPLE_NO_MATCH):
        out.append(name)
    for name in sorted(cp.PSEUDO_COMPLEX | cp.PSEUDO_COMPLEX_NO_MATCH | cp.PSEUDO_SPECIAL):
        out.extend(FUNCTIONAL.get(name, []))
    seen = []
    for s in out:
        if s not in seen:
            seen.append(s)
    return seen


BASIC = [
    '*', 'p', 'div', 'P', '#p1', '.a', '.a.b', '[id]', '[class~=a]', '[title="x y"]', '[title^=x]', '[title$=y]',
    '[title*=" "]', '[lang|=en]', '[id!=p1]', '[type=TEXT]', '[type="text" s]', '[id="P1" i]',
    'div p', 'div > p', 'p + p', 'p ~ ul', 'ul > li', 'li + li', 'li ~ li', 'div, p', 'html > body',
    ':root', ':empty', ':first-child', ':last-child', ':only-child', ':first-of-type', ':last-of-type',
    ':only-of-type', ':scope', ':scope > *', '& > p', 'p:is(.a, #p2)', ':not(div):not(p)', 'div:has(> p.a)',
    'ul:has(li + li)', ':is(div, ul) > :first-child', 'x|a', '*|a', '|b', '[x|t]', '[*|t]', '[|t]', 'svg|circle',
]


def general_pool():
    seen = []
    for s in BASIC + every_pseudo():
        if s not in seen:
            seen.append(s)
    return seen


# ---------------------------------------------------------------------------------------------
# AST pool for the reference model (vlib/refmodel.py)
import random  # noqa: E402
from . import refmodel as rm  # noqa: E402

OPS = ['', '=', '~=', '|=', '^=', '$=', '*=', '!=']
OPERANDS = ['', 'x', 'xy', 'x y', 'X', 'x-y', 'y']
STRUCT = ['root', 'empty', 'first-child', 'last-child', 'only-child', 'first-of-type', 'last-of-type', 'only-of-type']
NTHS = [(2, 1), (0, 2), (-1, 2), (1, 2), (2, 0), (3, -1), (0, 1), (-2, 3), (1, 0)]


def _atom(r):
    k = r.randrange(10)
    if k == 0:
        return rm.comp(tag=r.choice(['a', 'b', '*']))
    if k == 1:
        return rm.comp(ids=[r.choice(['i1', 'i2'])])
    if k == 2:
        return rm.comp(classes=[r.choice(['k', 'm']) for _ in range(r.choice([1, 1, 2, 2, 3]))])
    if k == 3:
        op = r.choice(OPS)
        flag = r.choice([None, None, 'i', 's']) if op else None
        return rm.comp(tag=r.choice([None, 'a']), attrs=[(None, r.choice(['t', 't', 'T', 'type']), op,
                                                         r.choice(OPERANDS) if op else '', flag)])
    if k == 4:
        return rm.comp(tag=r.choice([None, 'a', 'b']), pseudos=[(r.choice(STRUCT),)])
    if k == 5:
        a, b = r.choice(NTHS)
        kind = r.choice(['nth-child', 'nth-last-child', 'nth-of-type', 'nth-last-of-type'])
        return rm.comp(pseudos=[('nth', kind, a, b, None)])
    if k == 6:
        return rm.comp(tag=r.choice(['a', 'b']), classes=[r.choice(['k', 'm'])])
    if k == 7:
        return rm.comp(tag='*', pseudos=[(r.choice(STRUCT),)])
    if k == 8:
        return rm.comp(tag=r.choice(['A', 'B']))
    return rm.comp(tag=r.choice(['a', 'b']), ids=['i1'])


def _compound(r, depth):
    c = _atom(r)
    if depth > 0 and r.random() < 0.55:
        k = r.randrange(6)
        if k <= 2:
            name = ['not', 'is', 'where'][k] if r.random() < 0.9 else 'matches'
            c['pseudos'].append((name, [_complex(r, depth - 1) for _ in range(r.choice([1, 1, 2]))]))
        elif k <= 4:
            c['pseudos'].append(('has', [(r.choice([' ', '>', '+', '~']), _complex(r, depth - 1))
                                         for _ in range(r.choice([1, 1, 2]))]))
        else:
            a, b = r.choice(NTHS)
            c['pseudos'].append(('nth', r.choice(['nth-child', 'nth-last-child']), a, b,
                                 [_complex(r, 0) for _ in range(r.choice([1, 2]))]))
    return c


def _complex(r, depth):
    n = r.choice([1, 1, 1, 2, 2, 3])
    cx = [_compound(r, depth)]
    for _ in range(n - 1):
        cx.append((r.choice([' ', '>', '+', '~']), _compound(r, depth)))
    return cx


def ast_pool(n, seed=0, depth=2):
    """n selector lists (each a list of complex selectors) plus a fixed set of regression shapes."""
    r = random.Random(1000 + seed)
    fixed = [
        [[rm.comp(tag='*'), ('>', rm.comp(tag='a'))]],
        [[rm.comp(pseudos=[('not', [[rm.comp(tag='b')]])]), ('>', rm.comp(tag='a'))]],
        [[rm.comp(tag='*'), (' ', rm.comp(tag='a'))]],
        [[rm.comp(attrs=[(None, 't', '^=', '', None)])]],
        [[rm.comp(attrs=[(None, 't', '$=', '', None)])]],
        [[rm.comp(attrs=[(None, 't', '*=', '', None)])]],
        [[rm.comp(pseudos=[('has', [('>', [rm.comp(tag='*')])])])]],
        [[rm.comp(pseudos=[('root',)]), ('>', rm.comp(tag='*'))]],
        [[rm.comp(pseudos=[('not', [[rm.comp(pseudos=[('root',)])]])])]],
        [[rm.comp(classes=['k', 'k'])]], [[rm.comp(classes=['k', 'm', 'k'])]],
        [[rm.comp(pseudos=[('not', [[rm.comp(classes=['m', 'm'])]])])]],
        [[rm.comp(pseudos=[('empty',)])]], [[rm.comp(pseudos=[('not', [[rm.comp(pseudos=[('empty',)])]])])]],
        # element type = (namespace, local name): positional -of-type forms among same-named siblings
        [[rm.comp(tag='a', pseudos=[('first-of-type',)])]], [[rm.comp(tag='a', pseudos=[('last-of-type',)])]],
        [[rm.comp(pseudos=[('only-of-type',)])]], [[rm.comp(tag='a', pseudos=[('nth', 'nth-of-type', 0, 2, None)])]],
        [[rm.comp(pseudos=[('nth', 'nth-last-of-type', 0, 1, None)])]],
        [[rm.comp(pseudos=[('not', [[rm.comp(pseudos=[('first-of-type',)])]])])]],
    ]
    out = list(fixed)
    while len(out) < n + len(fixed):
        lst = [_complex(r, depth) for _ in range(r.choice([1, 1, 1, 2]))]
        out.append(lst)
    return out
