"""CLI: ./check C02 --tier quick | ./check C02 --replay evidence/replays/C02-1.json"""
import argparse
import importlib
import json
import os
import sys

from . import e1
from .ctx import Ctx


def main():
    ap = argparse.ArgumentParser()
    ap.add_argument('pid')
    ap.add_argument('--tier', default=os.environ.get('VERIF_TIER', 'quick'), choices=['quick', 'thorough'])
    ap.add_argument('--replay')
    a = ap.parse_args()
    if a.replay:
        rec = json.load(open(a.replay))
        if rec.get('engine') == 'E1':
            ok, detail = e1.replay(rec['module'], rec['fn'], rec['args_repr'], rec['kwargs_repr'], rec['part'],
                                   rec['nparts'], a.tier)
        else:
            mod = importlib.import_module('checks.' + a.pid.lower())
            ok, detail = mod.replay(rec)
        print(('REPRODUCED ' if ok else 'not reproduced ') + str(detail))
        sys.exit(1 if ok else 0)
    seed = int(os.environ.get('VERIF_SEED', '0') or 0)
    os.environ['VERIF_TIER'] = a.tier
    mod = importlib.import_module('checks.' + a.pid.lower())
    ctx = Ctx(a.pid, a.tier, seed)
    try:
        mod.run(ctx)
    except Exception as e:  # noqa: BLE001
        import traceback
        traceback.print_exc()
        ctx.harness_errors.append(f'check crashed: {type(e).__name__}: {e}')
    code = ctx.finish(**getattr(mod, 'FINISH', {}))
    sys.exit(code)


if __name__ == '__main__':
    main()
