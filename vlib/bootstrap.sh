#!/bin/bash
# Idempotent: build /verif/.venv (python 3.12 overlay on /venv + crosshair, z3, jsonschema) offline.
set -e
V="$(cd "$(dirname "$0")/.." && pwd)"
VENV="$V/.venv"
STAMP="$VENV/.ok"
if [ -f "$STAMP" ] && "$VENV/bin/python" -c "import crosshair, z3, jsonschema, soupsieve, bs4" 2>/dev/null; then
  exit 0
fi
(
  flock 9
  if [ -f "$STAMP" ] && "$VENV/bin/python" -c "import crosshair, z3, jsonschema, soupsieve, bs4" 2>/dev/null; then
    exit 0
  fi
  rm -rf "$VENV"
  /venv/bin/python -m venv "$VENV"
  SP="$VENV/lib/python3.12/site-packages"
  echo "import site; site.addsitedir('/venv/lib/python3.12/site-packages')" > "$SP/_overlay.pth"
  PIP_NO_INDEX=1 "$VENV/bin/python" -m pip install -q --no-index --find-links /opt/veriftools/wheels \
      crosshair-tool z3-solver jsonschema >/dev/null
  "$VENV/bin/python" -c "import crosshair, z3, jsonschema, soupsieve, bs4"
  touch "$STAMP"
) 9>"$V/.venv.lock"
