"""Replay one candidate counterexample on the unmodified library: plain interpreter, no CrossHair,
no stubs, no tracing.  A condition is reproduced when it returns a false verdict or raises."""
import ast
import importlib
import json
import sys
import traceback


def main():
    d = json.loads(sys.argv[1])
    mod = importlib.import_module(d['module'])
    fn = getattr(mod, d['fn'])
    args = [ast.literal_eval(a) for a in d['args']]
    kwargs = {k: ast.literal_eval(v) for k, v in d['kwargs'].items()}
    try:
        r = fn(*args, **kwargs)
        out = {'reproduced': not r, 'detail': f'returned {r!r}'}
    except Exception as e:  # noqa: BLE001
        tb = traceback.extract_tb(e.__traceback__)
        where = ' <- '.join(f'{f.name}:{f.lineno}' for f in reversed(tb[-3:]))
        out = {'reproduced': True, 'detail': f'raised {type(e).__name__}: {e} at {where}'}
    print('REPLAY ' + json.dumps(out))


if __name__ == '__main__':
    main()
