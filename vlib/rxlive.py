"""Enumerate the live re.Pattern objects of the imported soupsieve modules."""
import re
import soupsieve  # noqa: F401
from soupsieve import css_parser as cp, css_match as cm, util, pretty


def live_patterns():
    out = {}
    for mod in (cp, cm, util, pretty):
        for k, v in vars(mod).items():
            if isinstance(v, re.Pattern):
                out[f'{mod.__name__.split(".")[-1]}.{k}'] = v
    for tok in cp.CSSParser.css_tokens:
        if isinstance(tok, cp.SpecialPseudoPattern):
            out['css_parser.token.special.re_pseudo_name'] = tok.re_pseudo_name
            for name, p in tok.patterns.items():
                out[f'css_parser.token.{p.name}'] = p.re_pattern
        else:
            out[f'css_parser.token.{tok.name}'] = tok.re_pattern
    for k, v in pretty.TOKENS.items():
        out[f'pretty.TOKENS.{k}'] = v
    return out
