#!/bin/bash
# tools/mutant.sh <patchfile|-R:commit> <PID> [tier]  -- apply a change to /repo, run a check, undo the change.
set -u
P="$1"; PID="$2"; TIER="${3:-quick}"
cd /repo || exit 9
if [ -n "$(git status --porcelain)" ]; then echo "/repo not clean"; exit 9; fi
if [[ "$P" == -R:* ]]; then
  git show "${P#-R:}" | git apply -R || { echo "cannot apply"; exit 9; }
else
  git apply "$P" || { echo "cannot apply"; exit 9; }
fi
cd /verif
./check "$PID" --tier "$TIER" > /tmp/mutant_$PID.log 2>&1
RC=$?
git -C /repo checkout -- .
git -C /verif checkout -- evidence 2>/dev/null
grep -E "^(VIOLATION|KNOWN-FINDING)" /tmp/mutant_$PID.log | head -5
tail -1 /tmp/mutant_$PID.log
echo "exit=$RC"
