#!/usr/bin/env python3
"""tools/seed_eval.py <worktree> <variant-dir> <PID> <name> [tier]
Confirm a seeded change (patch applies, suite passes, demo fails with / passes without), run the property's check against it
on /repo (apply, check, undo) and file it under /verif/seeded/<name>/."""
import json
import os
import shutil
import subprocess
import sys
import time

wt, var, pid, name = sys.argv[1:5]
tier = sys.argv[5] if len(sys.argv) > 5 else 'quick'
PY = '/venv/bin/python'
patch = os.path.join(var, 'patch.diff')
demo = os.path.join(var, 'demo.py')


def sh(cmd, cwd=None, timeout=3600):
    p = subprocess.run(cmd, shell=True, cwd=cwd, capture_output=True, text=True, timeout=timeout)
    return p.returncode, (p.stdout + p.stderr)


meta = {'property': pid, 'name': name, 'source': 'independent sub-agent given only the property text and a scratch worktree'}
rc, out = sh('git status --porcelain -- soupsieve tests', wt)
assert out.strip() == '', 'worktree not clean: ' + out
rc, out = sh(f'{PY} {demo}', wt)
meta['demo_without_change_rc'] = rc
rc, out = sh(f'git apply {patch}', wt)
assert rc == 0, 'patch does not apply: ' + out
rc, out = sh(f'{PY} -m pytest -q -p no:cacheprovider -x 2>&1 | tail -1', wt)
meta['suite_with_change'] = out.strip()
rc, out = sh(f'{PY} {demo}', wt)
meta['demo_with_change_rc'] = rc
meta['demo_with_change_output'] = out[-600:]
sh('git checkout -- soupsieve', wt)
meta['confirmed'] = meta['demo_without_change_rc'] == 0 and meta['demo_with_change_rc'] != 0 and ' passed' in \
    meta['suite_with_change'] and 'failed' not in meta['suite_with_change']
# run the check on /repo
rc, out = sh('git status --porcelain', '/repo')
assert out.strip() == '', '/repo not clean'
rc, out = sh(f'git apply {patch}', '/repo')
assert rc == 0, 'patch does not apply to /repo: ' + out
t = time.time()
try:
    rc, out = sh(f'./check {pid} --tier {tier}', '/verif')
finally:
    sh('git checkout -- .', '/repo')
meta['check'] = {'cmd': f'./check {pid} --tier {tier}', 'exit': rc, 'wall_s': round(time.time() - t),
                 'violations': out.count('\nVIOLATION') + (1 if out.startswith('VIOLATION') else 0),
                 'first_violations': [l[:300] for l in out.splitlines() if '->' in l][:3],
                 'summary': out.strip().splitlines()[-1][:300] if out.strip() else ''}
meta['caught'] = rc == 1
sh('git checkout -- evidence', '/verif')
dst = os.path.join('/verif/seeded', name)
os.makedirs(dst, exist_ok=True)
try:
    old = json.load(open(os.path.join(dst, 'meta.json')))
    meta['earlier_evaluations'] = old.get('earlier_evaluations', []) + [{'caught': old.get('caught'), 'check': old.get('check')}]
except Exception:
    pass
shutil.copy(patch, os.path.join(dst, 'patch.diff'))
shutil.copy(demo, os.path.join(dst, 'demo.py'))
notes = os.path.join(var, 'notes.md')
if os.path.exists(notes):
    shutil.copy(notes, os.path.join(dst, 'notes.md'))
    meta['needs_to_manifest'] = 'see notes.md'
meta['what_i_ran'] = [f'cd {wt} && git apply patch.diff && {PY} -m pytest -q -p no:cacheprovider', f'{PY} demo.py (with / without the change)',
                      f'git -C /repo apply patch.diff; cd /verif && ./check {pid} --tier {tier}; git -C /repo checkout -- .']
json.dump(meta, open(os.path.join(dst, 'meta.json'), 'w'), indent=1)
print(json.dumps({k: meta[k] for k in ('name', 'confirmed', 'caught', 'suite_with_change', 'check')}, indent=1))
