#!/usr/bin/env python3
"""Print the markdown table of DESIGN.md §7 from /verif/seeded/*/meta.json and notes.md."""
import glob
import json
import os
import re

V = os.path.dirname(os.path.dirname(os.path.abspath(__file__)))


def title(d):
    for f in ('notes.md',):
        p = os.path.join(d, f)
        if os.path.exists(p):
            for line in open(p, encoding='utf8'):
                line = line.strip()
                if line.startswith('#'):
                    t = re.sub(r'^#+\s*', '', line)
                    t = re.sub(r'^(Seeded )?[Cc]hange\s+\w+\s*[-—:–]+\s*', '', t)
                    t = re.sub(r'^[A-F]\s*[-—:–]+\s*', '', t)
                    return t.replace('|', '/')[:150]
    return ''


def conds(check):
    out = []
    for l in check.get('first_violations', []):
        m = re.search(r'->\s+(\w+)', l)
        if m and m.group(1) not in out:
            out.append(m.group(1))
    return ', '.join(out[:3])


def main():
    rows = []
    for mp in sorted(glob.glob(os.path.join(V, 'seeded', '*', 'meta.json'))):
        m = json.load(open(mp))
        d = os.path.dirname(mp)
        earlier = m.get('earlier_evaluations', [])
        first = earlier[0]['caught'] if earlier else m.get('caught')
        how = 'caught' if m.get('caught') else '**missed**'
        if m.get('caught') and earlier and not first:
            how = 'caught after strengthening'
        elif m.get('caught') and m.get('strengthened_before_first_evaluation'):
            how = 'caught (check strengthened after reading the description, before the first run)'
        rows.append((m['name'], m['property'], title(d), how, conds(m.get('check', {})) or m.get('caught_by', ''),
                     m.get('check', {}).get('wall_s', '')))
    print('| change | property | what it does (from the author\'s notes) | result | conditions that reported it | wall s |')
    print('|---|---|---|---|---|---|')
    for r in rows:
        print('| ' + ' | '.join(str(x) for x in r) + ' |')
    n = len(rows)
    c = sum(1 for r in rows if r[3].startswith('caught'))
    f = sum(1 for r in rows if r[3] == 'caught')
    g = sum(1 for r in rows if r[3].startswith('caught (check'))
    print(f'\n{n} changes; {c} caught by the committed checks, of which {f} by the check as it stood, {g} by a check '
          f'strengthened after reading the description but before its first run, and {c - f - g} only after a recorded miss; '
          f'{n - c} missed.')


if __name__ == '__main__':
    main()
