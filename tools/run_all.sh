#!/bin/bash
# tools/run_all.sh [tier] : run every registered check in sequence, summarise
TIER="${1:-quick}"
cd "$(dirname "$0")/.."
for id in $(python3 -c "import json; print(' '.join(c['property_id'] for c in json.load(open('MANIFEST.json'))['checks']))"); do
  s=$(date +%s)
  ./check $id --tier $TIER > /tmp/runall_$id.log 2>&1
  rc=$?
  e=$(date +%s)
  echo "$id rc=$rc wall=$((e-s))s $(grep -c '^VIOLATION' /tmp/runall_$id.log) violations $(grep -c '^KNOWN-FINDING' /tmp/runall_$id.log) known | $(tail -1 /tmp/runall_$id.log | cut -c1-150)"
done
