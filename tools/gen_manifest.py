#!/usr/bin/env python3
"""Regenerate /verif/MANIFEST.json from the table below (keeps the file schema-valid)."""
import json
import os

V = os.path.dirname(os.path.dirname(os.path.abspath(__file__)))

E1_NOTE = ('Trusted base: CrossHair 0.0.110 (path exhaustion; its z3 models of int/str/re, with the one correction in '
           'vlib/chfix.py), z3 5.1, the reference model in the harness. Counterexamples do not depend on that trust: '
           'each is replayed on the unmodified library in a plain interpreter before it is reported.')

CHECKS = {
 'C02': dict(
  text='Bounded symbolic model checking of the real match_nth / parse_pseudo_nth: A and B are unbounded symbolic '
       'integers (CrossHair+z3 exhausts all paths: the arithmetic is decided for every integer pair), sibling layouts '
       'and An+B spellings are bounded (layouts <= 4/7 nodes, spellings <= 3/6 characters) and the evidence says which '
       'cells were exhausted and which only searched within the time budget.',
  design_ref='DESIGN.md §4 C02',
  technique='CrossHair symbolic execution of real code + z3 (unbounded ints), reference An+B oracle, replay'),
 'C18': dict(
  text='E2: each live value pattern (RE_NUM ... RE_DATETIME) is proved equivalent to the HTML microsyntax shape over unbounded strings (z3 regex theory). E1: symbolic model checking of the real Inputs validators with unbounded symbolic integers (days-in-month and '
       'ISO weeks-in-year decided for every year >= 1), of parse_value on strings assembled from symbolic digits and on '
       'arbitrary short strings over the microsyntax alphabet, of :in-range/:out-of-range ordering on a one-input tree with symbolic min/max/value, and of week-53 ordering (parse_value strictly monotone). Exhausted cells and budget-limited cells are listed separately.',
  design_ref='DESIGN.md §4 C18',
  technique='CrossHair symbolic execution of real code + z3 (unbounded ints, symbolic strings), reference calendar oracle, replay'),
 'C08': dict(
  text='Symbolic execution of every API entry point of the real matcher: min/max/value/dir/lang/type/name/placeholder '
       'strings are symbolic (solver-chosen content, bounded length) on concrete parser-built skeletons; the selector x '
       'document x call-target product (every pseudo-class of the live tables, 8 documents incl. XML/XHTML/multi-root/'
       'empty, detached fragments, odd attribute values) is a bounded enumeration steered by the solver and is exhausted. '
       'The only failure mode is an exception or non-termination.',
  design_ref='DESIGN.md §4 C08',
  technique='CrossHair symbolic execution of real code + z3 (symbolic attribute strings), exception-freedom contract, replay'),
 'C13': dict(
  text='Symbolic differential checking of the real extended_language_filter / match_lang against an RFC 4647 reference: '
       'subtag contents are symbolic strings (solver-chosen), structure bounded (range <= 3 subtags, tag <= 4); the '
       'language-inheritance walk is checked over every assignment of {absent, en, fr, empty, EN-us} to five ancestor '
       'levels x <meta> pragma x HTML/XHTML/XML (bounded enumeration steered by the solver).',
  design_ref='DESIGN.md §4 C13',
  technique='CrossHair symbolic execution of real code + z3 (symbolic subtag strings), RFC 4647 reference oracle, replay'),
 'C20': dict(
  text='Symbolic checking of the real get_pattern_context / SelectorSyntaxError for every pattern over {a,b,\\n,\\r} up to '
       '4/7 characters and every offset incl. the end; every parser-raised error of a malformed-selector pool x multi-line '
       'contexts must carry a (context,line,col) the reference derives from an in-range offset; DEBUG flag equivalence; '
       'pretty() progress for every string over the repr alphabet (symbolic) and repr-equality on a selector pool.',
  design_ref='DESIGN.md §4 C20',
  technique='CrossHair symbolic execution of real code + z3 (symbolic patterns/offsets), reference line/column oracle, replay'),
 'C10': dict(
  text='Symbolic execution of escape() followed by the real tokenizer/parser on the escaped text, for a symbolic '
       'character over the whole code point space (controls, C1, surrogates, astral; split into 14 ranges across '
       'processes): the IR must be exactly one compound carrying the original value, and select() on a 3-element tree '
       'must return exactly the carrier. Tokenising symbolic text is the slow path: cells that do not exhaust are '
       'time-boxed counterexample search and are reported as such.',
  design_ref='DESIGN.md §4 C10',
  technique='CrossHair symbolic execution of real escape + parser + z3 (symbolic code points), IR/selection oracle, replay'),
 'C07': dict(
  text='z3 regex/sequence-theory queries over every loop of every live regular expression (token patterns, auxiliary '
       'patterns, document-side attribute patterns taken from compiled IR): bounded ambiguity witnesses for iteration '
       'ambiguity (Q1), overlapping alternatives (Q2) and two-way concatenation splits inside loop bodies (Q3); each sat '
       'model is pumped and timed on the real re engine and on the real parser, and only measured super-polynomial '
       'growth within 64 characters is reported. unsat = no ambiguity witness up to the size bound.',
  design_ref='DESIGN.md §4 C07', engine='E2 live regex -> z3 + timing replay', category='other',
  note='Trusted base: z3 5.1 regex solver, vlib/rx2smt.py (self-checked each run by pushing z3-generated members and '
       'non-members through the real re), wall-clock timing with a 2 s cut-off on this machine.',
  technique='regex-to-SMT translation of live patterns, z3 ambiguity queries, pumped timing replay on real re/compile'),
 'C01': dict(
  text='Differential checking of the real matcher against an independent reference model (vlib/refmodel.py): '
       '(a) E2: for each attribute operator the regular expression found in the compiled IR is proved equivalent, as a '
       'language over unbounded strings (z3 regex theory), to the reference operator language; (b) E1: attribute values, '
       'ids and class strings are symbolic over all of Unicode (len <= 3/4) against every operator x flag x operand; '
       '(c) 600/5000 seeded random selector lists of the claimed grammar (depth 2) x 63/203 trees are compared exhaustively '
       '(identity and order of select() from the document and from inner elements), chosen by symbolic index.',
  design_ref='DESIGN.md §4 C01',
  technique='CrossHair symbolic execution of real matcher + z3 regex equivalence of live operator patterns, reference-model oracle, replay'),
 'C03': dict(
  text='Symbolic/differential checking of the real API: limit is an unbounded symbolic integer (all three regimes '
       'k<1, 1..n, >n decided by the solver); for 512/4012 selector lists (scope, &, custom aliases, random grammar '
       'members) x 32/102 trees x the document and elements as call target, select is compared with the reference '
       'filter of descendants and every other entry point with select; module-level functions are compared with '
       'compile(...).method over every combination of namespaces/flags/custom.',
  design_ref='DESIGN.md §4 C03',
  technique='CrossHair symbolic execution of real API + z3 (unbounded limit), reference-model oracle, replay'),
 'C15': dict(
  text='Symbolic/enumerative checking of the real value types and cache: Eq/hash consistency of the IR value types with '
       'symbolic field values (strings, ints, bools incl. True==1), of compile() over 27x27 argument tuples with and '
       'without purge; setattr/delattr on every slot of every node; pickle/copy/deepcopy; no aliasing of the caller\'s namespaces/custom dicts (mutated after compile); all histories of 4 '
       'compile/purge calls before an observed compile compared with a cache-bypassing parse; cache bound filled past 500.',
  design_ref='DESIGN.md §4 C15',
  technique='CrossHair symbolic execution of real value types + z3 (symbolic fields, histories by symbolic index), replay'),
 'C04': dict(
  text='Symbolic checking that one select() call (whose memo tables are shared by all elements) answers for every element '
       'as match() does alone, on a forms document whose <html lang>, <meta content>, radio name and submit type are '
       'symbolic strings; bounded histories (3 calls x 7 entry-point forms x 20 selectors, 5 documents) compared with a '
       'pristine copy incl. serialisation, attrs and node identity; equal-valued twin nodes, list/bytes attribute values and parent-less elements are left unchanged and '
       'answer as pristine copies; a probe subclass of the real matcher checks that the namespace map / iframe flag are restored on return.',
  design_ref='DESIGN.md §4 C04',
  technique='CrossHair symbolic execution of real matcher + z3 (symbolic attribute strings, histories by symbolic index), replay'),
 'C05': dict(
  text='Metamorphic checking of the union / complement / intersection laws on the real select(): pairs (A, B) from a pool '
       'of ~130 alternatives covering every pseudo-class the live parser accepts (HTML-only and state pseudo-classes, '
       'namespaced types, custom aliases, :dir/:defined) are chosen by a seed-scrambled symbolic index; each pair is '
       'evaluated under 3 namespace maps on 10 documents (HTML from two parsers, XHTML, XML, iframe, inline SVG).',
  design_ref='DESIGN.md §4 C05',
  technique='CrossHair-driven bounded exploration of real select() (solver-chosen selector pairs), metamorphic set laws, replay'),
 'C06': dict(
  text='(a) E2: z3 proves for the live escape patterns that whatever group 1 captures is backslash + 1..6 hex digits + '
       'optional CSS whitespace (unbounded strings), so int(.,16) is always defined; (b) E1: css_unescape on every string '
       'up to 3/4 characters and on every hex escape value 0..0xFFFFFF with symbolic digits; (c) E1, time-boxed: 34+8 '
       'templates with a symbolic slot through the real tokenizer/parser, custom maps with symbolic names/definitions, '
       'cyclic and colliding maps: only SelectorSyntaxError / NotImplementedError / documented KeyError may escape.',
  design_ref='DESIGN.md §4 C06',
  technique='z3 regex inclusion on live escape patterns + CrossHair symbolic execution of real css_unescape/parser, replay'),
 'C09': dict(
  text='(a) Token lemmas through one step of the real tokenizer loop with symbolic fillers (whitespace/comment atoms with '
       'symbolic comment bodies): "u C v" is one combine token with relation C, whitespace-bearing fillers are one '
       'descendant combinator, fillers before ")" belong to the closing token, and the insignificant tail is recognised '
       'exactly; escape spellings decode to themselves (symbolic characters). (b) End to end: 1015/6015 selector lists x '
       '12/40 seeded respellings (fillers at every gap, escapes, quotes, case) must compile to the same structure and '
       'select the same elements; bounded enumeration chosen by symbolic index.',
  design_ref='DESIGN.md §4 C09',
  technique='CrossHair symbolic execution of the real tokenizer step/css_unescape + z3 (symbolic fillers), respelling metamorphic relation, replay'),
 'C11': dict(
  text='Symbolic checking of the case rules: the document spells tag names, attribute names and attribute values with a '
       'symbolic ASCII case mask (solver-chosen) in HTML, XHTML and XML trees built through the bs4 API, against selector '
       'spellings and i/s flags with a reference rule table; all cells exhaust. Parser-built trees (html.parser, lxml, '
       'html5lib, lxml-xml) and the HTML-only pseudo-classes in XML are enumerated.',
  design_ref='DESIGN.md §4 C11',
  technique='CrossHair symbolic execution of real matcher + z3 (symbolic case masks), reference rule table, replay'),
 'C12': dict(
  text='Checking of the real namespace matching: attribute namespace selectors against an element whose namespaced '
       'attribute URI and the caller\'s map value are symbolic strings (solver explores the equality structure); element '
       'namespace selectors over every equality pattern of (root ns, element ns, map[x], map[default]) x 15 selector forms '
       '(exhaustive enumeration by symbolic index); an XHTML+SVG+xlink document from lxml-xml and html5lib under 7 prefix maps; a non-XHTML XML document mixing four namespaces under 8 maps with '
       'HTML-only pseudo-classes and type-less list members (20 selectors x 3 entry points).',
  design_ref='DESIGN.md §4 C12',
  technique='CrossHair symbolic execution of real matcher + z3 (symbolic URIs), reference namespace predicate, replay'),
 'C19': dict(
  text='Symbolic/differential checking of the real match_contains with symbolic search strings on every element of 60/300 '
       'seeded trees mixing text, comment, CDATA, PI, declaration, doctype, element and iframe nodes (HTML and XML); the '
       'same relation through the real parser and select() for 14 search strings x 7 forms on 400/3000 trees; :empty on the '
       'same trees and on a child with symbolic content over all of Unicode.',
  design_ref='DESIGN.md §4 C19',
  technique='CrossHair symbolic execution of real match_contains/match_empty + z3 (symbolic search strings), reference text oracle, replay'),
 'C17': dict(
  text='Checking of the partition / disjointness / implication laws of the statement as set identities over real select() '
       'results, and of :default, :indeterminate, :placeholder-shown and the range domain against reference definitions '
       '(form owner, radio group, iframe = document boundary), on 300/3000 seeded forms documents (nested forms, fieldsets, '
       'optgroups, radio groups spread over forms and iframes) plus parser-built ones, chosen by symbolic index; the same '
       'laws with symbolic type / placeholder / value / name / dir strings on a compact document (time-boxed).',
  design_ref='DESIGN.md §4 C17',
  technique='CrossHair symbolic execution of real state pseudo-classes + z3 (symbolic attribute strings), set-law and reference oracles, replay'),
 'C14': dict(
  text='Schedules as solver variables: every mutable object reachable from the soupsieve modules\' globals and class '
       'attributes is re-classed to a recording variant, results of lru_cache\'d functions are handed out as recording containers, each API call (21 compile patterns incl. custom aliases, 18 '
       'select/match/filter/closest calls, 8 calls on parent-less elements) is traced from the state after purge(), and for every pair (quick) / triple (thorough) of calls z3 decides whether an interleaving exists '
       'in which a read observes another thread\'s differing write; satisfiable schedules are enforced on real threads by '
       'a lock-step scheduler and only divergence from the sequential result is reported. With no shared writes every query '
       'is unsat and the evidence says so.',
  design_ref='DESIGN.md §4 C14', engine='E3 z3 schedule search + lock-step replay',
  note='Trusted base: completeness of the shared-state discovery (Python-level objects reachable from module globals and '
       'class attributes), atomicity of functools.lru_cache, z3 QF_LIA; reported violations are reproduced on real threads.',
  technique='access traces of real code -> z3 interleaving (read-from) query -> enforced schedule on real threads'),
}

NOT_APPLICABLE = {
 'C16': 'Import-order behaviour of fresh interpreters has no input, integer, string or schedule to make symbolic; '
        'CrossHair cannot execute importlib symbolically and a def-before-use model of bs4 would be an abstraction whose only '
        'confirmation is running the interpreters, i.e. another technique (DESIGN.md §4 C16).',
}
PENDING = 'check not built yet in this session (build in progress; see DESIGN.md)'


def main():
    props = [json.loads(l)['id'] for l in open(os.path.join(V, 'properties.jsonl'))]
    checks = []
    for pid in props:
        if pid not in CHECKS:
            continue
        c = CHECKS[pid]
        checks.append({
            'property_id': pid,
            'quick_cmd': f'./check {pid} --tier quick',
            'thorough_cmd': f'./check {pid} --tier thorough',
            'evidence_file': f'/verif/evidence/{pid}.json',
            'replay_cmd_template': f'./check {pid} --replay {{path}}',
            'engine': c.get('engine', 'E1 CrossHair/z3 over real code'),
            'level_claimed': {'category': c.get('category', 'model_checking'), 'text': c['text'],
                              'design_ref': c['design_ref']},
            'level_note': c.get('note', E1_NOTE),
            'technique': c['technique'],
        })
    na = []
    for pid in props:
        if pid in CHECKS:
            continue
        na.append({'property_id': pid, 'reason': NOT_APPLICABLE.get(pid, PENDING)})
    m = {
        'version': 1,
        'setup_cmd': 'bash vlib/bootstrap.sh',
        'hooks': {
            'guard': 'SOUPSIEVE_VERIF',
            'enable': 'no source hooks exist: harnesses call, wrap and re-class objects of the imported /repo modules '
                      'from outside; the guard name is reserved and unused',
            'baseline_off_cmd': 'cd /repo && /venv/bin/python -m pytest -ra -q -p no:cacheprovider --timeout=900 '
                                '--continue-on-collection-errors',
            'source_commits': [],
            'add_only': True,
        },
        'engines': [
            {'name': 'E1', 'path': 'vlib/e1.py', 'serves_properties': sorted(CHECKS),
             'kind_free_text': 'CrossHair 0.0.110 symbolic execution (z3) of harness contracts that call the real '
                               'soupsieve functions; per-cell processes, vacuity twins, replay'},
            {'name': 'E2', 'path': 'vlib/rx2smt.py', 'serves_properties': [],
             'kind_free_text': 'live re.Pattern objects -> z3 regular-expression / sequence terms'},
        ],
        'checks': checks,
        'notes': 'Exit codes: 0 nothing violated in what was explored; 1 reproduced unlisted violation; 2 harness error.',
        'not_applicable': na,
    }
    with open(os.path.join(V, 'MANIFEST.json'), 'w') as f:
        json.dump(m, f, indent=1)


if __name__ == '__main__':
    main()
