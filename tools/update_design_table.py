#!/usr/bin/env python3
"""Regenerate the seeded-changes table of DESIGN.md §7 from /verif/seeded/*/meta.json."""
import os
import subprocess
import sys
V = os.path.dirname(os.path.dirname(os.path.abspath(__file__)))
p = os.path.join(V, 'DESIGN.md')
s = open(p, encoding='utf8').read()
a = s.index('<!-- SEEDED-TABLE-BEGIN -->') + len('<!-- SEEDED-TABLE-BEGIN -->')
b = s.index('<!-- SEEDED-TABLE-END -->')
t = subprocess.check_output([sys.executable, os.path.join(V, 'tools', 'seed_table.py')], text=True)
open(p, 'w', encoding='utf8').write(s[:a] + '\n' + t + s[b:])
