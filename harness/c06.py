"""C06 — compile() accepts or rejects every string with a documented error only."""
from __future__ import annotations
from vlib.hsupport import *  # noqa: F401,F403
from vlib.hsupport import bs4, cm, cp, ct, sv, util, ret, part, TIER, concrete, notrace, raw_compile

DOCUMENTED = (util.SelectorSyntaxError, NotImplementedError)
HEX = '0123456789abcdefABCDEF'


def unescape_total_ok(s: str, string: bool) -> bool:
    """
    pre: len(s) <= UL
    post: _
    """
    # css_unescape never raises, on any string (identifier and string flavour)
    return ret(isinstance(cp.css_unescape(s, string), str))


UL = 3 if TIER == 'quick' else 4


def unescape_hex_ok(h: str, tail: str, string: bool) -> bool:
    """
    pre: 1 <= len(h) <= 6 and all(c in HEX for c in h)
    pre: len(tail) <= 1 and all(c not in HEX for c in tail)
    pre: len(h) == 6 or len(tail) == 1
    post: _
    """
    # every hex escape \\h (1..6 digits, any value up to 0xFFFFFF) decodes without an exception; code points CSS
    # cannot represent (0, > U+10FFFF) become U+FFFD
    out = cp.css_unescape('\\' + h + tail, string)
    v = int(h, 16)
    ok = isinstance(out, str)
    if v == 0 or v > 0x10FFFF:
        ok = ok and out[:1] == '�'
    return ret(ok)


def unescape_after_hex_ok(t: str, string: bool) -> bool:
    """
    pre: len(t) <= 5 and all(c in '/*a \\\\' for c in t)
    post: _
    """
    # what follows a hex escape (whitespace, comment openers, further escapes) never breaks decoding
    return ret(isinstance(cp.css_unescape('\\a' + t, string), str))


TEMPLATES = part([
    ('', ''), ('[a=', ']'), ('[a~="', '"]'), ('[a|=', ']'), ('[a^="', '"]'), ('[a*=', ']'), (':', '('), (':-soup-contains(', ')'), ('\\', ''), ('[a="', ''), ('/*', ''), (':is(', ''),
    ('a', 'b'), ('#', ''), (':nth-child(', ')'), (':lang(', ')'), ('[', '=b]'), ('a[b', ']'), ('@', ''), ('::', ''),
    (':not(', ')'), ('a', ''), ('.', ''), ('[a', 'b]'), (':nth-child(2n', ')'), (':dir(', ')'), ('a ', ' b'),
    (':has(', ')'), ('[a="x"', ']'), (':--', ''), ('a|', ''), ('*', ''), ('[a=b ', ']'), (':-soup-contains("', '")'),
    (':nth-child(2 of ', ')'), ('&', ''), ('a /*', '*/ b'), (':lang("', '")'),
])
NT = len(TEMPLATES)


def compile_slot_ok(ti: int, s: str) -> bool:
    """
    pre: 0 <= ti < NT
    pre: len(s) <= SL
    post: _
    """
    # PRE + s + POST through the real parser: a compiled selector, SelectorSyntaxError or NotImplementedError
    pre, post = TEMPLATES[ti]
    try:
        c = raw_compile(pre + s + post)
        return ret(isinstance(c, cm.SoupSieve))
    except DOCUMENTED:
        return ret(True)


SL = 2 if TIER == 'quick' else 3


def compile_escape_ok(ti: int, h: str) -> bool:
    """
    pre: 0 <= ti < len(ESC_TEMPLATES)
    pre: 1 <= len(h) <= 6 and all(c in HEX for c in h)
    post: _
    """
    # a hex escape of any value in identifier, string, attribute and pseudo-class argument position
    pre, post = ESC_TEMPLATES[ti]
    try:
        c = raw_compile(pre + '\\' + h + post)
        return ret(isinstance(c, cm.SoupSieve))
    except DOCUMENTED:
        return ret(True)


ESC_TEMPLATES = [('', ''), ('#', ''), ('[a="', '"]'), ('[a=', ']'), (':-soup-contains(', ')'), (':lang(', ')'),
                 ('.a', ' b'), (':-soup-contains(', '/**/,b)')]


CUSTOM_USERS = [':--a', ':--a, :--b', 'p:--b', ':is(:--a)', 'p']


def custom_map_ok(k1: str, v1: str, k2: str, v2: str, ui: int, two: bool) -> bool:
    """
    pre: len(k1) <= 2 and len(k2) <= 2 and len(v1) <= 2 and len(v2) <= 2
    pre: 0 <= ui < len(CUSTOM_USERS)
    post: _
    """
    # custom maps with arbitrary (malformed) names and definitions, incl. self-referential and mutually recursive
    # ones: SelectorSyntaxError, or the documented KeyError for names differing only in case
    cust = {':--' + k1: v1}
    if two:
        cust[':--' + k2] = ':--' + k1 + v2
    try:
        c = raw_compile(CUSTOM_USERS[ui], None, cust)
        return ret(isinstance(c, cm.SoupSieve))
    except DOCUMENTED:
        return ret(True)
    except KeyError:
        return ret(_collide(cust))


def _collide(cust):
    """Two names that denote the same custom pseudo-class (equal after case folding and escape decoding)."""
    names = [cp.css_unescape(util.lower(k)) for k in cust]
    return len(set(names)) < len(names)


CYCLES = [{':--a': ':--a'}, {':--a': ':--b', ':--b': ':--a'}, {':--a': 'p:--b', ':--b': ':is(:--a)'},
          {':--a': ':--c', ':--b': 'p'}, {':--A': 'p', ':--a': 'q'}, {'--a': 'p'}, {':--a': ''}, {':--a': ','},
          {':--a b': 'p'}, {':--a': ':--a, p'}, {':--\\61': 'p', ':--a': 'q'}, {':--a': ':not(:--b)', ':--b': ':has(:--a)'}]


def custom_cycles_ok(ci: int, ui: int) -> bool:
    """
    pre: 0 <= ci < len(CYCLES)
    pre: 0 <= ui < len(CUSTOM_USERS)
    post: _
    """
    ci, ui = concrete(ci), concrete(ui)
    with notrace():
        cust = CYCLES[ci]
        try:
            sv.purge()
            c = sv.compile(CUSTOM_USERS[ui], custom=cust)
            return ret(isinstance(c, cm.SoupSieve))
        except DOCUMENTED:
            return ret(True)
        except KeyError:
            return ret(_collide(cust))


LENGTHS = [5, 40, 400, 4300, 4301, 6000]
LONG_FORMS = [':nth-child(%s)', ':nth-child(%sn)', ':nth-child(2n+%s)', ':nth-last-of-type(-%sn-%s)', ':nth-child(%s of p)',
              '[a=%s]', '#a%s', ':lang(%s)', 'a:nth-of-type(+%s)']


def long_numbers_ok(li: int, fi: int) -> bool:
    """
    pre: 0 <= li < len(LENGTHS)
    pre: 0 <= fi < len(LONG_FORMS)
    post: _
    """
    # very long digit runs (beyond the interpreter's int <-> str conversion limit of 4300 digits) in An+B and elsewhere
    li, fi = concrete(li), concrete(fi)
    with notrace():
        digits = '9' * LENGTHS[li]
        pat = LONG_FORMS[fi].replace('%s', digits)
        try:
            sv.purge()
            c = sv.compile(pat)
            return ret(isinstance(c, cm.SoupSieve))
        except DOCUMENTED:
            return ret(True)


META = ['(', ')', '[', ']', '\\', 'a(b', 'a)b', '*x', '+', '?', '{2}', 'a|b', '^', '$', '.', 'a.b', '(?P<x', '[a-', '\\d', 'w-[10px]',
        '\\Z', '(?i)x']
META_OPS = ['=', '~=', '|=', '^=', '$=', '*=', '!=']


def attr_meta_ok(mi: int, oi: int, form: int) -> bool:
    """
    pre: 0 <= mi < len(META)
    pre: 0 <= oi < len(META_OPS)
    pre: 0 <= form <= 3
    post: _
    """
    # regular-expression metacharacters as attribute operands (quoted, inside :not / :is, with a flag): compile never
    # raises anything undocumented, and the compiled selector matches the operand literally
    mi, oi, form = concrete(mi), concrete(oi), concrete(form)
    with notrace():
        import bs4 as _b
        v = META[mi].replace('\\\\', '\\')
        q = '"' + v.replace('\\', '\\\\').replace('"', '\\"') + '"'
        body = '[t' + META_OPS[oi] + q + ('' if form != 3 else ' i') + ']'
        pat = (body, ':not(' + body + ')', ':is(p, ' + body + ')', body)[form]
        try:
            sv.purge()
            c = sv.compile(pat)
        except DOCUMENTED:
            return ret(False)       # every one of these is a valid selector
        soup = _b.BeautifulSoup('<p></p>', 'html.parser')
        soup.p.attrs['t'] = v
        hit = c.match(soup.p)
        exp = {'=': True, '~=': True, '|=': True, '^=': True, '$=': True, '*=': True, '!=': False}[META_OPS[oi]]
        if form == 1:
            exp = not exp
        if form == 2:
            exp = True
        return ret(bool(hit) == exp)


ODD_INPUTS = [
    '', ' ', '/**/', ':nth-child( of p)', ':nth-child(of p)', ':nth-child(2n+1 of)', ':nth-child(2n+1 of )', ':nth-child()',
    ':nth-child( )', ':nth-of-type(2 of p)', ':is(', ':is()', ':is( )', ':is(,)', ':not()', ':not(,)', ':has()', ':has(>)',
    ':has(> )', ':where(', '[a=]', '[a= i]', '[a=b i', '[a=b x]', '[a i]', '[=b]', '[a==b]', '[a~]', '[|a]', '[*|a]', '[x|]', '[|]',
    ':lang()', ':lang( )', ':lang(,)', ':lang(en,)', ':lang(,en)', ':dir()', ':dir( )', ':dir(LTR RTL)', ':-soup-contains()',
    ':-soup-contains( )', ':-soup-contains(,)', ':-soup-contains("a",)', ':contains', ':-soup-contains', ':lang', ':dir',
    ':nth-child', '&a', 'a&', '&&', '&|a', '& &', ':--', ':--a', ':--a(', ':--a()', 'a|', 'a||b', '|', '||', '*|', '*|*|*', 'a|b|c',
    '#', '##a', '.', '..a', 'a..b', '#.a', '.#a', ':', '::', ':::a', ':a:', 'a:', '@', '@a', '@media x', '!', 'a!', '!a', '>', '> >',
    'a > > b', '+', '~', ',', ',,', 'a,,b', ', a', 'a ,', '(', ')', 'a)', '(a)', '[', ']', 'a]', '[[a]]', '{', '}', 'a{}', '\\',
    'a\\', '\\ a', '\\\n', '"', "'", '"a"', "'a", '[a="]', "[a=']", '[a="\n"]', '/*', '*/', '/* a', 'a /* b */ /*', '/*/', '/**',
    'a:not(b', 'a:not(b))', ':not(:not(:not(', ':is(:is(:is(a', ':current()', ':current(', ':host()', ':host-context()', ':host(,)',
    ':root()', ':empty()', ':first-child(2)', ':checked()', ':scope()', ':defined()', ':nth-last-child(n of :has(', '\x00', 'a\x00b',
    '\n    div >\n', 'ul > li,\nol > li,\n', 'a,\n', 'a >\r\n', '\n\n:is(\n', 'a\n>\n', 'a\f+\f', '\n', '\r\n\r\n', 'a[b\n', ':not(\n\n',
    'p:nth-child(2n\n', '/* c\n', 'a,\n/* c */\n', '\n'*5 + ',',
    '[a=b \u017f]', '[a="b" \u0131]', "[a='b'\u0130]", '[a=b \u212a]', ':nth-child(2\u0274)', ':d\u0131r(ltr)', ':dir(\u017ftr)',
    ':nth-child(2n+1 \u1d0ff p)', '\u017fpan', ':i\u017f(a)', ':nth-child(2n+1 o\u0493 p)', ':n\u0131th-child(2)', ':\u0131s(a)',
    '\ud800', '\U0010ffff', 'a\tb', 'a\x0bb', 'a\x85b', '\ufeffa', ':NOT(A)', ':Nth-Child(EVEN OF P)', '[A=B I]', ':--A',
]
CUSTOM_DEFS = [None, {}, {':--a': ''}, {':--a': ' '}, {':--a': '/**/'}, {':--a': ','}, {':--a': ':--a'}, {':--a': 'p', ':--A': 'q'},
               {':--a': ':is('}, {':--\\61': 'p'}, {':--a\\ b': 'p'}, {':--': 'p'}, {'--a': 'p'}, {':-a': 'p'}, {'a': 'p'}, {':--a': '&'},
               {':--a': ':--b', ':--b': ':--c', ':--c': ':--a'}, {':--a': 'p, :--b', ':--b': ':not(:--a)'}]


def odd_inputs_ok(i: int, ci: int) -> bool:
    """
    pre: 0 <= i < len(ODD_INPUTS)
    pre: 0 <= ci < len(CUSTOM_DEFS)
    post: _
    """
    # a list of odd but tokenizable (or nearly tokenizable) inputs x custom maps: documented errors only
    i, ci = concrete(i), concrete(ci)
    with notrace():
        cust = CUSTOM_DEFS[ci]
        try:
            sv.purge()
            c = sv.compile(ODD_INPUTS[i], custom=cust)
            return ret(isinstance(c, cm.SoupSieve))
        except DOCUMENTED:
            return ret(True)
        except KeyError:
            return ret(cust is not None and _collide(cust))
