"""C08 — matching never raises on any tree.

E1 conditions: every entry point of the real API on (selector x document x target) with symbolic
strings injected into the attributes the matcher reads.  `post: True` — the only way to fail is an
exception escaping (or non-termination, caught by the path timeout).
"""
from __future__ import annotations
from vlib.hsupport import *  # noqa: F401,F403
from vlib.hsupport import bs4, cm, cp, ct, sv, ret, part, TIER, html_soup, concrete, notrace
from vlib import treegen as tg, selgen

NS = {'x': 'urn:x', 'svg': 'http://www.w3.org/2000/svg', 'html': 'http://www.w3.org/1999/xhtml'}
POOL = selgen.general_pool()
COMPILED_ALL = [sv.compile(s, namespaces=NS) for s in POOL]
SEL = part(list(range(len(POOL))))
NSEL = len(SEL)

DOCNAMES = ['forms_hp', 'forms_lxml', 'forms_h5', 'plain_hp', 'multiroot_hp', 'xml', 'xhtml', 'empty_hp', 'foreign_form_xml',
            'meta_class_hp', 'meta_class_h5', 'meta_class_lxml', 'scripty_hp', 'listy_hp', 'listy_lxml', 'listy_h5']
DOCS = [tg.doc(n) for n in DOCNAMES]
ELS = [tg.elements(d) for d in DOCS]
DETACHED = [tg.detached('forms_hp', 'f1'), tg.detached('plain_hp', 'u'), tg.detached('xml', 'xa'),
            tg.detached('forms_hp', 'r1'), tg.detached('forms_hp', 'lg'), tg.detached('forms_hp', 'fs'), tg.detached('forms_hp', 'o1'),
            tg.detached('forms_hp', 'ta'), tg.detached('forms_hp', 'fr')]


def _exercise(c, target, els):
    """Call every entry point; return False only on a wrongly typed result."""
    r = c.select(target)
    r1 = c.select_one(target)
    r2 = list(c.iselect(target, limit=2))
    f = c.filter(target)
    cl = c.closest(target)
    m = c.match(target)
    ok = isinstance(r, list) and isinstance(f, list) and isinstance(m, bool)
    ok = ok and (r1 is None or isinstance(r1, bs4.Tag)) and (cl is None or isinstance(cl, bs4.Tag))
    ok = ok and len(r2) <= 2
    f2 = c.filter(els)
    return ok and isinstance(f2, list)


def any_selector_any_target_ok(si: int) -> bool:
    """
    pre: 0 <= si < NSEL
    post: _
    """
    # every entry point, with the document and every element of every document as call target; concrete documents, so the
    # body runs natively once the solver has fixed the selector index (bounded enumeration steered by the solver)
    si = concrete(si)
    ok = True
    for di in range(len(DOCS)):
        with notrace():
            c = COMPILED_ALL[SEL[si]]
            els = ELS[di]
            ok = ok and _exercise(c, DOCS[di], els[:6])
            for e in els:
                ok = ok and _exercise(c, e, [e])
    return ret(ok)


def detached_ok(si: int) -> bool:
    """
    pre: 0 <= si < NSEL
    post: _
    """
    si = concrete(si)
    ok = True
    for di in range(len(DETACHED)):
        with notrace():
            c = COMPILED_ALL[SEL[si]]
            t = DETACHED[di]
            ok = ok and _exercise(c, t, [t])
            for e in tg.elements(t):
                ok = ok and _exercise(c, e, [e])
    return ret(ok)


# ---- symbolic attribute content -----------------------------------------------------------------

IN_RANGE = sv.compile(':in-range')
OUT_RANGE = sv.compile(':out-of-range')
TYPE_POOL = [None, '', 'date', 'month', 'week', 'time', 'datetime-local', 'number', 'range', 'WEEK', 'text', 'bogus']
RANGE_ALPHA = '0123456789-:TW.e+ \n'
N1 = tg.by_id(DOCS[0], 'n1')


def range_strings_ok(ti: int, mn: str, mx: str, v: str, has_mn: bool, has_mx: bool, has_v: bool) -> bool:
    """
    pre: 0 <= ti < len(TYPE_POOL)
    pre: len(mn) <= RLEN and len(mx) <= RLEN and len(v) <= RLEN
    pre: all(c in RANGE_ALPHA for c in mn) and all(c in RANGE_ALPHA for c in mx) and all(c in RANGE_ALPHA for c in v)
    post: _
    """
    # <input> with arbitrary type / min / max / value content: :in-range and :out-of-range return a Boolean
    with tg.inject([(N1, 'type', TYPE_POOL[ti]), (N1, 'min', mn if has_mn else None),
                    (N1, 'max', mx if has_mx else None), (N1, 'value', v if has_v else None)]):
        a = IN_RANGE.match(N1)
        b = OUT_RANGE.match(N1)
    return ret(isinstance(a, bool) and isinstance(b, bool) and not (a and b))


RLEN = 8 if TIER == 'quick' else 11

STATE_SELECTORS = [':dir(ltr)', ':dir(rtl)', ':lang(en)', ':lang("*-x")', ':default', ':indeterminate', ':checked',
                   ':placeholder-shown', ':read-write', ':read-only', ':enabled', ':disabled', ':required',
                   ':optional', ':in-range', ':out-of-range', ':link', ':root', ':defined', ':empty']
STATE = part([sv.compile(s) for s in STATE_SELECTORS])
SLOT_ELS = [tg.by_id(DOCS[0], i) for i in ('p1', 'ta', 'r1', 'i1', 'n1', 'sp', 'f1')]
HTML_EL = DOCS[0].find('html')


def state_strings_ok(si: int, ei: int, dirv: str, langv: str, typev: str, namev: str, ph: str,
                     has_dir: bool, has_lang: bool, has_type: bool, has_name: bool) -> bool:
    """
    pre: 0 <= si < len(STATE)
    pre: 0 <= ei < len(SLOT_ELS)
    pre: len(dirv) <= 4 and len(langv) <= 3 and len(typev) <= 2 and len(namev) <= 1 and len(ph) <= 1
    post: _
    """
    # arbitrary dir / lang / type / name / placeholder content on one element of the forms document, then every
    # state pseudo-class over the whole document
    el = SLOT_ELS[ei]
    with tg.inject([(el, 'dir', dirv if has_dir else None), (el, 'lang', langv if has_lang else None),
                    (el, 'type', typev if has_type else None), (el, 'name', namev if has_name else None),
                    (el, 'placeholder', ph), (HTML_EL, 'dir', dirv if has_dir else None)]):
        r = STATE[si].select(DOCS[0])
        m = STATE[si].match(el)
    return ret(isinstance(r, list) and isinstance(m, bool))


# ---- odd attribute values -------------------------------------------------------------------------

ODD = [None, 5, 1.5, True, b'x', b'\xff', ['a', ['b']], (), ['a', 5, None], ('a', 'b'), [], '', ' ', ['a b'],
       ['a', b'b'], [b'a'], [b'\xff', 'a'], ['a', [b'b', None]], (b'a', 'b'), [None], [1.5, 'a'], ['a', ('b', b'c')]]
ODD_SELECTORS = part([sv.compile(s) for s in (
    '[t]', '[t=a]', '[t~=a]', '[t|=a]', '[t^=a]', '[t$=a]', '[t*=a]', '[t!=a]', '[t="5" i]', '.a', '#a', '.a.b',
    '[class]', '[class~=a]', '[id=a]', '[class*=a]', ':not([t])', ':is(.a, #a)', 'p[t]:first-child')])
P1 = tg.by_id(tg.doc('plain_hp'), 'p1')
XA = tg.by_id(tg.doc('xml'), 'xa')


def odd_values_ok(si: int, ai: int) -> bool:
    """
    pre: 0 <= si < len(ODD_SELECTORS)
    pre: 0 <= ai <= 2
    post: _
    """
    # None, numbers, bytes, nested lists ... stored through the bs4 API in attributes that only attribute, class and
    # id selectors read (invalid UTF-8 bytes excluded from the claim: see check file)
    si, ai = concrete(si), concrete(ai)
    ok = True
    with notrace():
        for xml in (False, True):
            el = XA if xml else P1
            docu = tg.doc('xml') if xml else tg.doc('plain_hp')
            for oi in range(len(ODD)):
                with tg.inject([(el, ('t', 'class', 'id')[ai], ODD[oi])]):
                    r = ODD_SELECTORS[si].select(docu)
                    m = ODD_SELECTORS[si].match(el)
                ok = ok and isinstance(r, list) and isinstance(m, bool)
    return ret(ok)


def non_tag_target_ok(si: int, k: int) -> bool:
    """
    pre: 0 <= si < NSEL
    pre: 0 <= k < 5
    post: _
    """
    # a call target that is not a Tag raises TypeError (and nothing else)
    c = COMPILED_ALL[SEL[si]]
    bad = ['text', None, 5, bs4.NavigableString('x'), bs4.Comment('c')][k]
    ok = True
    for fn in (c.select, c.select_one, c.match, c.closest, lambda t: list(c.iselect(t))):
        try:
            fn(bad)
            ok = False
        except TypeError:
            pass
    return ret(ok)


LENGTHS = [4, 40, 400, 4300, 4301, 6000]
LONG_VALUES = [('date', '%s-01-01'), ('month', '%s-01'), ('week', '%s-W01'), ('datetime-local', '%s-01-01T00:00'),
               ('number', '%s'), ('number', '1e%s'), ('number', '.%s'), ('range', '-%s.%s'), ('time', '%s:00')]


def long_values_ok(li: int, vi: int, where: int) -> bool:
    """
    pre: 0 <= li < len(LENGTHS)
    pre: 0 <= vi < len(LONG_VALUES)
    pre: 0 <= where <= 2
    post: _
    """
    # very long digit runs (beyond the interpreter's 4300-digit int conversion limit) as min / max / value
    li, vi, where = concrete(li), concrete(vi), concrete(where)
    with notrace():
        itype, form = LONG_VALUES[vi]
        text = form.replace('%s', '9' * LENGTHS[li])
        attrs = [(N1, 'type', itype), (N1, 'min', '1'), (N1, 'max', None), (N1, 'value', '2')]
        attrs[1 + where] = (N1, ('min', 'max', 'value')[where], text)
        with tg.inject(attrs):
            a = IN_RANGE.match(N1)
            b = OUT_RANGE.match(N1)
    return ret(isinstance(a, bool) and isinstance(b, bool) and not (a and b))


# Strings decoded with surrogateescape (or assigned through the API) can hold lone surrogates: in values the state
# pseudo-classes read, in attribute names and in element names.
SUR = ['\ud800', 'te\udc80xt', '\udfffltr', 'a\ud83d', 'RADIO\udc00']


def _sur_doc(k, v):
    d = bs4.BeautifulSoup('<html><body><form><input id="i" type="radio" name="g"><input id="j" type="number" min="1" max="5" value="3">'
                          '<textarea id="t" dir="auto">x</textarea></form><p id="p" lang="en" dir="ltr">t</p></body></html>', 'html.parser')
    i, j, t, p = (d.find(id=x) for x in 'ijtp')
    if k == 0:
        for el, a in ((i, 'type'), (i, 'name'), (j, 'type'), (j, 'min'), (j, 'value'), (t, 'dir'), (p, 'dir'), (p, 'lang'), (t, 'placeholder')):
            el.attrs[a] = v
    elif k == 1:
        for el in (i, j, t, p):
            el.attrs['da' + v + 'ta'] = 'x'
            el.attrs[v] = v
    else:
        n = d.new_tag('x' + v)
        p.append(n)
        i.name = 'in' + v
        n.append(d.new_tag('input', type='radio'))
    return d


def surrogate_ok(si: int) -> bool:
    """
    pre: 0 <= si < NSEL
    post: _
    """
    si = concrete(si)
    ok = True
    with notrace():
        c = COMPILED_ALL[SEL[si]]
        for vi in range(len(SUR)):
            for k in range(3):
                d = _sur_doc(k, SUR[vi])
                ok = ok and isinstance(c.select(d), list)
                for e in tg.elements(d):
                    ok = ok and isinstance(c.match(e), bool) and isinstance(c.filter(e), list)
                    c.closest(e)
    return ret(ok)
