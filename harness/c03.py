"""C03 — all query entry points are views of one match relation."""
from __future__ import annotations
import os
import random
from vlib.hsupport import *  # noqa: F401,F403
from vlib.hsupport import bs4, cm, cp, ct, sv, util, ret, part, TIER, html_soup, concrete, notrace
from vlib import refmodel as rm, selgen, treegen as tg

SEED = int(os.environ.get('VERIF_SEED', '0') or 0)
_r = random.Random(303 + SEED)

# selector pool: random ASTs + scope/&/custom forms
CUSTOM_AST = {':--x': [[rm.comp(tag='a', classes=['k'])], [rm.comp(tag='b')]],
              ':--y': [[rm.comp(pseudos=[('custom', ':--x')]), ('>', rm.comp(tag='*'))]]}
CUSTOM_TXT = {k: rm.render_list(v) for k, v in CUSTOM_AST.items()}
EXTRA = [
    [[rm.comp(pseudos=[('scope',)])]],
    [[rm.comp(pseudos=[('scope',)]), ('>', rm.comp(tag='*'))]],
    [[rm.comp(pseudos=[('amp',)]), ('>', rm.comp(tag='a'))]],
    [[rm.comp(pseudos=[('scope',)]), (' ', rm.comp(tag='b'))]],
    [[rm.comp(tag='a', pseudos=[('has', [('>', [rm.comp(pseudos=[('scope',)])])])])]],
    [[rm.comp(pseudos=[('not', [[rm.comp(pseudos=[('scope',)])]])])]],
    [[rm.comp(pseudos=[('amp',)])], [rm.comp(tag='b')]],
    [[rm.comp(pseudos=[('custom', ':--x')])]],
    [[rm.comp(pseudos=[('custom', ':--y')])]],
    [[rm.comp(tag='*', pseudos=[('not', [[rm.comp(pseudos=[('custom', ':--x')])]])])]],
    [[rm.comp(pseudos=[('scope',)]), ('+', rm.comp(tag='*'))]],
    [[rm.comp(pseudos=[('scope',)]), ('~', rm.comp(tag='*'))]],
]
NRAND = 500 if TIER == 'quick' else 4000
ASTS = part(EXTRA + selgen.ast_pool(NRAND, SEED + 3, depth=1))
NAST = len(ASTS)
TEXTS = [rm.render_list(a) for a in ASTS]
COMPILED = [sv.compile(t, custom=CUSTOM_TXT) for t in TEXTS]
TREES = []
for _i in range(30 if TIER == 'quick' else 100):
    _k = ('html', 'html', 'xml', 'detached')[_i % 4]
    TREES.append((_k,) + (tg.twin_tree(_r, _k) if _i % 3 == 2 else tg.random_tree(_r, _k)))
TREES.append(('html', tg.doc('plain_hp'), None))
TREES.append(('html', tg.doc('multiroot_hp'), None))
# parsed <iframe> content (html.parser keeps it as elements): user selectors and closest() cross the frame boundary
FRAMED = bs4.BeautifulSoup('<div id="o" class="k a"><iframe id="f"><html><body><p id="ip" class="k"><b id="ib" class="a">x</b>'
                                        '</p></body></html></iframe></div>', 'html.parser')
TREES.append(('html', FRAMED, None))
NT = len(TREES)


def _ids(xs):
    return [id(x) for x in xs]


def views_ok(si: int) -> bool:
    """
    pre: 0 <= si < NAST
    post: _
    """
    # on every tree and for the document and every element as call target: select == reference filter of descendants
    # (scope = target); iselect == select; select_one == first; filter(tag) == matching element children;
    # filter(iterable) keeps order and skips non-Tags; closest == nearest matching ancestor-or-self element;
    # match == membership
    si = concrete(si)
    with notrace():
        c = COMPILED[si]
        lst = ASTS[si]
        ok = True
        for kind, top, root in TREES:
            html = kind != 'xml'
            if top is FRAMED and ':root' in TEXTS[si]:
                continue        # the root of a framed document is a root as well (pinned by the repository's tests)
            targets = [top] + rm.descendants(top)
            for t in targets[:7]:
                exp = rm.ref_select(lst, t, html=html, custom=CUSTOM_AST)
                got = c.select(t)
                ok = ok and _ids(got) == _ids(exp)
                ok = ok and _ids(list(c.iselect(t))) == _ids(exp)
                one = c.select_one(t)
                ok = ok and ((one is exp[0]) if exp else one is None)
                ok = ok and len(set(_ids(got))) == len(got) and all(rm.is_element(e) and e is not t for e in got)
                # filter(tag)
                kids = [k for k in t.contents if rm.is_element(k)]
                expf = [k for k in kids if rm.ref_match(lst, k, scope_node=t, html=html, custom=CUSTOM_AST)]
                ok = ok and _ids(c.filter(t)) == _ids(expf)
                # filter(iterable): every Tag item is asked on its own (scope = the item)
                items = list(t.contents)[::-1]
                expi = [k for k in items if rm.is_element(k) and rm.ref_match(lst, k, html=html, custom=CUSTOM_AST)]
                ok = ok and _ids(c.filter(items)) == _ids(expi)
                ok = ok and _ids(c.filter(tuple(items))) == _ids(expi) and _ids(c.filter(iter(items))) == _ids(expi)
                ok = ok and _ids(c.filter(x for x in items)) == _ids(expi)
                ok = ok and _ids(sv.filter(TEXTS[si], (x for x in items), custom=CUSTOM_TXT)) == _ids(expi)
                if rm.is_element(t):
                    # match / closest
                    ok = ok and bool(c.match(t)) == rm.ref_match(lst, t, html=html, custom=CUSTOM_AST)
                    anc = t
                    expc = None
                    while anc is not None and rm.is_element(anc):
                        if rm.ref_match(lst, anc, scope_node=t, html=html, custom=CUSTOM_AST):
                            expc = anc
                            break
                        anc = anc.parent
                    ok = ok and c.closest(t) is expc
                else:
                    ok = ok and c.match(t) is False and c.closest(t) is None
    return ret(ok)


def limit_ok(si: int, ti: int, limit: int) -> bool:
    """
    pre: 0 <= si < min(NAST, LSEL)
    pre: 0 <= ti < min(NT, LTREE)
    post: _
    """
    # limit is an UNBOUNDED symbolic integer: select/iselect with limit k return the first k results for k >= 1 and
    # everything for k <= 0 (module-level and compiled-object forms)
    c = COMPILED[concrete(si)]
    kind, top, root = TREES[concrete(ti)]
    full = c.select(top)
    got = c.select(top, limit)
    goti = list(c.iselect(top, limit))
    exp = full[:limit] if limit >= 1 else full
    return ret(_ids(got) == _ids(exp) and _ids(goti) == _ids(exp))


# ---- module-level functions == compile(...).method -------------------------------------------------------

NSMAPS = [None, {}, {'x': 'urn:x'}, {'': 'urn:d', 'x': 'urn:x'}]
FLAGS = [0, sv.DEBUG]
CUSTOMS = [None, {}, CUSTOM_TXT]
WRAP_SELECTORS = part(['a', 'x|a', ':--x', ':--y > a', 'b:not(:--x)', ':scope > *', 'a, b', '& > *', ':not(:scope)', ':scope', '*'])
XML_DOC = tg.doc('xml')
PLAIN = tg.doc('plain_hp')


def _call(fn):
    try:
        return ('ok', fn())
    except Exception as e:  # noqa: BLE001
        return ('exc', type(e).__name__)


def _norm(r):
    k, v = r
    if k == 'exc':
        return r
    if isinstance(v, list):
        return ('ok', _ids(v))
    if isinstance(v, bs4.Tag):
        return ('ok', id(v))
    return r


def wrappers_ok(wi: int, ni: int, fi: int, ci: int, xml: bool) -> bool:
    """
    pre: 0 <= wi < len(WRAP_SELECTORS)
    pre: 0 <= ni < len(NSMAPS) and 0 <= fi < len(FLAGS) and 0 <= ci < len(CUSTOMS)
    post: _
    """
    # every module-level function returns what compile(pattern, namespaces, flags, custom=custom).<method> returns
    # (same value or same exception type), for every combination of the optional arguments
    wi, ni, fi, ci, xml = concrete(wi), concrete(ni), concrete(fi), concrete(ci), concrete(xml)
    import io
    import contextlib
    with notrace(), contextlib.redirect_stdout(io.StringIO()):
        sel, ns, fl, cu = WRAP_SELECTORS[wi], NSMAPS[ni], FLAGS[fi], CUSTOMS[ci]
        docu = XML_DOC if xml else PLAIN
        el = rm.descendants(docu)[2]
        kw = {}
        if ns is not None:
            kw['namespaces'] = ns
        if fl:
            kw['flags'] = fl
        if cu is not None:
            kw['custom'] = cu

        def comp():
            return sv.compile(sel, ns, fl, custom=cu)
        ok = True
        ok = ok and _norm(_call(lambda: sv.select(sel, docu, **kw))) == _norm(_call(lambda: comp().select(docu)))
        ok = ok and _norm(_call(lambda: sv.select(sel, docu, limit=1, **kw))) == _norm(_call(lambda: comp().select(docu, 1)))
        ok = ok and _norm(_call(lambda: list(sv.iselect(sel, docu, **kw)))) == _norm(_call(lambda: list(comp().iselect(docu))))
        ok = ok and _norm(_call(lambda: sv.select_one(sel, docu, **kw))) == _norm(_call(lambda: comp().select_one(docu)))
        ok = ok and _norm(_call(lambda: sv.match(sel, el, **kw))) == _norm(_call(lambda: comp().match(el)))
        ok = ok and _norm(_call(lambda: sv.filter(sel, docu, **kw))) == _norm(_call(lambda: comp().filter(docu)))
        ok = ok and _norm(_call(lambda: sv.closest(sel, el, **kw))) == _norm(_call(lambda: comp().closest(el)))
        # the same with elements (with element and text children) as the call target, and with iterables
        for t in (rm.descendants(docu)[0], rm.descendants(docu)[1], el, el.parent):
            ok = ok and _norm(_call(lambda: sv.filter(sel, t, **kw))) == _norm(_call(lambda: comp().filter(t)))
            ok = ok and _norm(_call(lambda: sv.filter(sel, list(t.contents), **kw))) == _norm(_call(lambda: comp().filter(list(t.contents))))
            ok = ok and _norm(_call(lambda: sv.filter(sel, iter(t.contents), **kw))) == _norm(_call(lambda: comp().filter(iter(t.contents))))
            ok = ok and _norm(_call(lambda: sv.select(sel, t, **kw))) == _norm(_call(lambda: comp().select(t)))
            ok = ok and _norm(_call(lambda: sv.select_one(sel, t, **kw))) == _norm(_call(lambda: comp().select_one(t)))
            ok = ok and _norm(_call(lambda: sv.match(sel, t, **kw))) == _norm(_call(lambda: comp().match(t)))
            ok = ok and _norm(_call(lambda: sv.closest(sel, t, **kw))) == _norm(_call(lambda: comp().closest(t)))
    return ret(ok)


LSEL, LTREE = (6, 5) if TIER == 'quick' else (40, 20)
