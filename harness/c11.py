"""C11 — name and value case rules follow the document type."""
from __future__ import annotations
from vlib.hsupport import *  # noqa: F401,F403
from vlib.hsupport import bs4, cm, cp, ct, sv, util, ret, part, TIER, html_soup, xml_soup, concrete, notrace
from vlib import refmodel as rm, treegen as tg

XHTML = 'http://www.w3.org/1999/xhtml'
KINDS = ['html', 'xhtml', 'xml']


def build(kind, tagname, attrname, value):
    """<r><TAG ATTR=value/></r> as an HTML tree (html.parser builder), XHTML (XML builder, XHTML namespace) or XML."""
    soup = html_soup() if kind == 'html' else xml_soup()
    ns = XHTML if kind == 'xhtml' else None
    r = soup.new_tag('html' if kind == 'xhtml' else 'r', namespace=ns)
    soup.append(r)
    # (the tag is created and inserted with a concrete name and renamed afterwards: bs4's constructor and insert() hash the
    # name, after which CrossHair 0.0.110's symbolic string iterates wrongly)
    el = soup.new_tag('zz', namespace=ns)
    r.append(el)
    el.name = tagname
    el.attrs[attrname] = value
    return soup, el


def _low(s: str) -> str:
    return rm.lower_ascii(s)


TAG_SELECTORS = ['ab', 'AB', 'aB', 'Ab', '*|ab', 'r > AB', 'aB:first-child']
TAG_NAMES = ['ab', 'AB', 'aB', 'Ab', 'ab', 'AB', 'aB']
TAG_COMPILED = [sv.compile(s) for s in TAG_SELECTORS]


def tag_case_ok(tagname: str, ki: int, si: int) -> bool:
    """
    pre: len(tagname) == 2 and _low(tagname) == 'ab'
    pre: 0 <= ki <= 2
    pre: 0 <= si < len(TAG_SELECTORS)
    post: _
    """
    # the document spells the tag name with an arbitrary (symbolic) ASCII case mask
    soup, el = build(KINDS[ki], tagname, 't', 'v')
    if KINDS[ki] == 'xhtml' and TAG_SELECTORS[si].startswith('r >'):
        return ret(True)
    got = any(e is el for e in TAG_COMPILED[si].select(soup))
    exp = True if KINDS[ki] == 'html' else tagname == TAG_NAMES[si]
    return ret(got == exp)


ATTR_SELECTORS = ['[tt]', '[TT]', '[tT]', 'ab[Tt]', '[tt=v]', '[TT="v"]', '[tT^=v]', ':not([TT])']
ATTR_NAMES = ['tt', 'TT', 'tT', 'Tt', 'tt', 'TT', 'tT', 'TT']
ATTR_COMPILED = [sv.compile(s) for s in ATTR_SELECTORS]


def attr_name_case_ok(attrname: str, ki: int, si: int) -> bool:
    """
    pre: len(attrname) == 2 and _low(attrname) == 'tt'
    pre: 0 <= ki <= 2
    pre: 0 <= si < len(ATTR_SELECTORS)
    post: _
    """
    soup, el = build(KINDS[ki], 'ab', attrname, 'v')
    got = any(e is el for e in ATTR_COMPILED[si].select(soup))
    has = True if KINDS[ki] == 'html' else attrname == ATTR_NAMES[si]
    exp = (not has) if ATTR_SELECTORS[si].startswith(':not') else has
    return ret(got == exp)


# value case: (selector text, attribute, operand, flag)
VAL_CASES = part([
    ('[t=ab]', 't', 'ab', None), ('[t=AB]', 't', 'AB', None), ('[t="aB" i]', 't', 'aB', 'i'), ('[t=ab s]', 't', 'ab', 's'),
    ('[type=ab]', 'type', 'ab', None), ('[type=AB]', 'type', 'AB', None), ('[type="Ab" s]', 'type', 'Ab', 's'),
    ('[type=ab i]', 'type', 'ab', 'i'), ('[TYPE=ab]', 'type', 'ab', None), ('[t^=a]', 't', 'a', None),
    ('[type^=A]', 'type', 'A', None), ('[type$=B s]', 'type', 'B', 's'), ('[t~=AB i]', 't', 'AB', 'i'),
    ('[type|=ab]', 'type', 'ab', None), ('[t*=B]', 't', 'B', None), ('[type!=AB]', 'type', 'AB', None),
    ('[datatype=AB]', 'datatype', 'AB', None), ('[types=AB]', 'types', 'AB', None), ('[xtype^=A]', 'xtype', 'A', None),
    ('[typ=AB]', 'typ', 'AB', None), ('[id=AB]', 'id', 'AB', None), ('[class=AB]', 'class', 'AB', None),
    ('[type="AB" s]', 'type', 'AB', 's'), ('[TYPE="ab" s]', 'type', 'ab', 's'),
])
VAL_COMPILED = [sv.compile(c[0]) for c in VAL_CASES]
OPS = {'=': '=', '^': '^=', '$': '$=', '~': '~=', '|': '|=', '*': '*=', '!': '!='}


def value_case_ok(value: str, ki: int, ci: int) -> bool:
    """
    pre: len(value) == 2 and _low(value) == 'ab'
    pre: 0 <= ki <= 2
    pre: 0 <= ci < len(VAL_CASES)
    post: _
    """
    # the document spells the attribute value with a symbolic case mask; the attribute is `t` or `type`
    text, attr, operand, flag = VAL_CASES[ci]
    kind = KINDS[ki]
    # the document's attribute is spelled in lower case; '[TYPE=..]' only reaches it in HTML
    soup, el = build(kind, 'ab', attr, value)
    got = any(e is el for e in VAL_COMPILED[ci].select(soup))
    op = OPS[text[text.index('=') - 1]] if text[text.index('=') - 1] in OPS and text[text.index('=') - 1] != '=' else '='
    if flag == 'i':
        ins = True
    elif flag == 's':
        ins = False
    else:
        ins = kind == 'html' and attr == 'type'
    exp = rm.attr_op(op, value, operand, ins)
    if text.startswith('[TYPE') and kind != 'html':
        exp = False
    return ret(got == exp)


# ---- HTML-only pseudo-classes never match in XML that is not XHTML ---------------------------------------------

HTML_ONLY = [':any-link', ':checked', ':default', ':defined', ':dir(ltr)', ':dir(rtl)', ':disabled', ':enabled', ':in-range',
             ':indeterminate', ':link', ':optional', ':out-of-range', ':placeholder-shown', ':read-only', ':read-write',
             ':required']
FORMS_XML = bs4.BeautifulSoup(tg.FORMS.replace('<!DOCTYPE html>', ''), 'xml')
FORMS_XHTML = bs4.BeautifulSoup(
    '<html xmlns="%s"><body><p dir="rtl">x</p><a href="#">l</a><form><input type="checkbox" checked="checked"/>'
    '<input type="text" required="required" placeholder="p"/><input type="number" min="1" max="3" value="2"/>'
    '<input type="number" min="1" max="3" value="9"/><input type="radio" name="g"/><input type="submit" disabled="disabled"/>'
    '<textarea readonly="readonly">t</textarea></form></body></html>' % XHTML, 'xml')
XML_DOCS = [tg.doc('xml'), FORMS_XML, bs4.BeautifulSoup('<root><a href="#" dir="ltr"><input type="checkbox" checked="" '
                                                         'required=""/><input type="number" min="1" value="0"/></a></root>', 'xml')]
XML_DOCS.append(bs4.BeautifulSoup(
    '<feed xmlns="http://www.w3.org/2005/Atom"><entry><content type="xhtml"><div xmlns="%s" dir="ltr"><p dir="rtl">x</p>'
    '<input type="checkbox" checked="checked" required="required"/><a href="#">l</a><input type="number" min="1" value="0"/>'
    '<custom-el/></div></content></entry></feed>' % XHTML, 'xml'))
WRAPS = ['%s', 'a%s', '*|*%s', ':is(%s)', ':is(root, %s)', 'root %s', '%s *', ':not(:not(%s))', ':has(%s)', '%s, %s',
         ':nth-child(n of %s)']


IDC = [sv.compile(x) for x in ('#ab', '#AB', '.ab', '.AB', '#aB.Ab')]
IDC_VALUES = [('ab', None), ('AB', None), (None, 'ab'), (None, 'AB'), ('aB', 'Ab')]


def id_class_case_ok(idv: str, clsv: str, ki: int) -> bool:
    """
    pre: len(idv) == 2 and _low(idv) == 'ab' and len(clsv) == 2 and _low(clsv) == 'ab'
    pre: 0 <= ki <= 2
    post: _
    """
    # ids and classes are values: compared exactly in every document type
    soup, el = build(KINDS[ki], 'p', 'id', idv)
    el.attrs['class'] = [clsv]
    ok = True
    for c, (wi, wc) in zip(IDC, IDC_VALUES):
        exp = (wi is None or idv == wi) and (wc is None or clsv == wc)
        ok = ok and (any(e is el for e in c.select(soup)) == exp)
    return ret(ok)


def html_only_ok(pi: int) -> bool:
    """
    pre: 0 <= pi < len(HTML_ONLY)
    post: _
    """
    # in XML documents (not XHTML) no element matches an HTML-only pseudo-class, alone or inside :is / :has / lists /
    # combinators / double negation; in the XHTML rendering of the forms document each of them matches something
    pi = concrete(pi)
    with notrace():
        p = HTML_ONLY[pi]
        ok = True
        for w in WRAPS:
            text = w.replace('%s', p)
            c = sv.compile(text)
            for d in XML_DOCS:
                r = c.select(d)
                if text.startswith(':is(root'):
                    ok = ok and all(e.name == 'root' for e in r)
                else:
                    ok = ok and r == []
        # and its negation matches every element there
        for d in XML_DOCS:
            ok = ok and len(sv.select(':not(' + p + ')', d)) == len(tg.elements(d))
            ok = ok and len(sv.select('*|*:not(:is(' + p + ', ' + p + '))', d)) == len(tg.elements(d))
        # sanity of the oracle: the same selectors are not vacuous on HTML-namespaced content
        ok = ok and len(sv.select(p, FORMS_XHTML)) > 0
    return ret(ok)


# ---- the same logical tree from each installed parser ------------------------------------------------------------

MARKUP = '<html><body><AB TT="Ab" Type="Ab" id="x">t</AB><svg viewBox="0 0 1 1" id="sv"><linearGradient id="lg" gradientUnits="u"/></svg></body></html>'
PARSED = [(p, bs4.BeautifulSoup(MARKUP, p)) for p in ('html.parser', 'lxml', 'html5lib')]
PARSED.append(('xml', bs4.BeautifulSoup('<r><AB TT="Ab" Type="Ab" id="x">t</AB></r>', 'xml')))
PARSED_SELECTORS = [
    ('ab', True, False), ('AB', True, True), ('aB', True, False), ('[tt]', True, False), ('[TT]', True, True),
    ('[tt=Ab]', True, False), ('[tt=ab]', False, False), ('[TT=ab]', False, False), ('[tt=ab i]', True, False),
    ('[TT=ab i]', True, True), ('[type=ab]', True, False), ('[Type=ab]', True, False), ('[Type=Ab]', True, True),
    ('[type=ab s]', False, False), ('[TYPE="Ab" s]', True, False), ('Ab[tT="Ab"]', True, False), ('AB[TT="Ab"]', True, True),
    ('[viewBox]', True, None), ('[viewbox]', True, None), ('[VIEWBOX]', True, None), ('lineargradient', True, None),
    ('linearGradient', True, None), ('[gradientunits=u]', True, None), ('[GradientUnits="u"]', True, None),
    ('[*|viewBox]', True, None), ('[*|viewbox]', True, None), ('[*|VIEWBOX]', True, None), ('[|viewbox]', True, None),
    ('[*|gradientunits="u"]', True, None), ('[|GRADIENTUNITS=U i]', True, None), ('[*|tt=Ab]', True, False), ('[*|TT]', True, True),
    ('*|ab', True, False), ('*|AB[*|tt]', True, False), ('*|lineargradient', True, None), ('[*|Type=ab]', True, False),
]


def parsed_case_ok(si: int) -> bool:
    """
    pre: 0 <= si < len(PARSED_SELECTORS)
    post: _
    """
    # <AB TT="Ab" Type="Ab"> parsed by html.parser, lxml, html5lib (HTML rules) and by lxml-xml (XML rules)
    si = concrete(si)
    with notrace():
        text, html_exp, xml_exp = PARSED_SELECTORS[si]
        ok = True
        for name, d in PARSED:
            got = len(sv.select(text, d)) == 1
            if name == 'xml' and xml_exp is None:
                continue
            ok = ok and got == (xml_exp if name == 'xml' else html_exp)
    return ret(ok)
