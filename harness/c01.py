"""C01 — select() returns exactly the elements CSS semantics designate.

Differential against vlib/refmodel.py.  Attribute values, ids and class strings are symbolic
(solver-chosen, all of Unicode); selector shapes and tree shapes come from seeded pools and are
chosen by symbolic index.
"""
from __future__ import annotations
import os
import random
from vlib.hsupport import *  # noqa: F401,F403
from vlib.hsupport import bs4, cm, cp, ct, sv, util, ret, part, TIER, html_soup, xml_soup, concrete, notrace
from vlib import refmodel as rm, selgen, treegen as tg

SEED = int(os.environ.get('VERIF_SEED', '0') or 0)

# ---------------------------------------------------------------------------------------------
# (1) attribute operators on a symbolic value

OPS = ['=', '~=', '|=', '^=', '$=', '*=', '!=']
OPERANDS = ['', 'x', 'xy', 'x y', 'X', '-', 'x-', '.', '€']
FLAGS = [None, 'i', 's']
ATTR_CASES = part([(op, operand, flag, name) for op in OPS for operand in OPERANDS for flag in FLAGS
                   for name in ('t', 'type')])
NAC = len(ATTR_CASES)
ATTR_COMPILED = [sv.compile(rm.render_list([[rm.comp(attrs=[(None, n, op, operand, fl)])]]))
                 for op, operand, fl, n in ATTR_CASES]


def _one(xml: bool, name: str, value):
    soup = xml_soup() if xml else html_soup()
    el = soup.new_tag('a')
    soup.append(el)
    el.attrs[name] = value
    return soup, el


def attr_value_ok(ci: int, v: str, xml: bool) -> bool:
    """
    pre: 0 <= ci < NAC
    pre: len(v) <= VL
    post: _
    """
    # [name OP "operand" flag] against every attribute value v (all of Unicode), HTML and XML trees
    op, operand, flag, name = ATTR_CASES[ci]
    soup, el = _one(xml, name, v)
    got = ATTR_COMPILED[ci].match(el)
    if flag == 'i':
        ins = True
    elif flag == 's':
        ins = False
    else:
        ins = (not xml) and name == 'type'
    exp = rm.attr_op(op, v, operand, ins)
    return ret(bool(got) == exp)


VL = 3 if TIER == 'quick' else 4


def attr_list_value_ok(ci: int, v1: str, v2: str) -> bool:
    """
    pre: 0 <= ci < NAC
    pre: len(v1) <= 2 and len(v2) <= 2
    post: _
    """
    # multi-valued attributes (lists, as parsers store class/rel/...) compare as their space-joined value
    op, operand, flag, name = ATTR_CASES[ci]
    soup, el = _one(False, name, [v1, v2])
    got = ATTR_COMPILED[ci].match(el)
    ins = True if flag == 'i' else False if flag == 's' else name == 'type'
    exp = rm.attr_op(op, v1 + ' ' + v2, operand, ins)
    return ret(bool(got) == exp)


ID_SEL = sv.compile('#i1')
CLASS_SEL = sv.compile('.k')
CLASS2_SEL = sv.compile('.k.m')


def id_class_ok(idv: str, c1: str, c2: str, aslist: bool) -> bool:
    """
    pre: len(idv) <= 3 and len(c1) <= 2 and len(c2) <= 2
    post: _
    """
    # #i1 / .k / .k.m against symbolic id and class content (class as parser-style list or as a raw string)
    soup = html_soup()
    el = soup.new_tag('a')
    soup.append(el)
    el.attrs['id'] = idv
    el.attrs['class'] = [c1, c2] if aslist else c1 + ' ' + c2
    have = [c1, c2] if aslist else rm.split_ws(c1 + ' ' + c2)
    ok = bool(ID_SEL.match(el)) == (idv == 'i1')
    ok = ok and bool(CLASS_SEL.match(el)) == ('k' in have)
    ok = ok and bool(CLASS2_SEL.match(el)) == ('k' in have and 'm' in have)
    return ret(ok)


# ---------------------------------------------------------------------------------------------
# (2) structure: selector pool x tree pool (chosen by symbolic index; body native once chosen)

NSEL = 600 if TIER == 'quick' else 5000
NTREE = 60 if TIER == 'quick' else 200
ASTS = part(selgen.ast_pool(NSEL, SEED, depth=2))
NAST = len(ASTS)
TEXTS = [rm.render_list(a) for a in ASTS]
COMPILED = [sv.compile(t) for t in TEXTS]
_r = random.Random(77 + SEED)
TREES = []
for _i in range(NTREE):
    _kind = ('html', 'html', 'html', 'xml', 'detached')[_i % 5]
    TREES.append((_kind,) + (tg.twin_tree(_r, _kind) if _i % 4 == 3 else tg.random_tree(_r, _kind)))
for _name in ('plain_hp', 'plain_h5', 'multiroot_hp', 'scripty_hp', 'scripty_lxml', 'scripty_h5'):
    TREES.append(('html', tg.doc(_name), None))
TREES.append(('xml',) + tg.ns_siblings_tree())
NT = len(TREES)


def structure_ok(si: int) -> bool:
    """
    pre: 0 <= si < NAST
    post: _
    """
    # select() from the document / root and from every element == reference (identity and document order),
    # on every tree of the pool
    si = concrete(si)
    with notrace():
        c = COMPILED[si]
        lst = ASTS[si]
        ok = True
        for kind, top, root in TREES:
            html = kind != 'xml'
            ok = ok and [id(e) for e in c.select(top)] == [id(e) for e in rm.ref_select(lst, top, html=html)]
            for e in rm.descendants(top)[:5]:
                got = [id(x) for x in c.select(e)]
                exp = [id(x) for x in rm.ref_select(lst, e, html=html)]
                ok = ok and got == exp
    return ret(ok)


# ---------------------------------------------------------------------------------------------
# (3) symbolic attribute content inside structural selectors

SYM_SELECTORS = None   # rendered from the reference ASTs below (single source of truth)


def _sym_tree(v0, v1, v2, p0, p1, p2):
    """<a><a t=v0><b t=v1/></a> txt <b t=v2/><!--c--><b/></a> with each t present or absent."""
    soup = html_soup()
    root = soup.new_tag('a')
    soup.append(root)
    n0 = soup.new_tag('a')
    n1 = soup.new_tag('b')
    n2 = soup.new_tag('b')
    n3 = soup.new_tag('b')
    root.append(n0)
    n0.append(n1)
    root.append(bs4.NavigableString(' txt '))
    root.append(n2)
    root.append(bs4.Comment('c'))
    root.append(n3)
    n0.attrs['id'] = 'i1'
    n2.attrs['class'] = ['k']
    for n, v, p in ((n0, v0, p0), (n1, v1, p1), (n2, v2, p2)):
        if p:
            n.attrs['t'] = v
    return soup


def _A(op, val, flag=None, tag=None, **kw):
    return rm.comp(tag=tag, attrs=[(None, 't', op, val, flag)], **kw)


ALL_SYM_ASTS = [
    [[_A('=', 'x', tag='a'), ('>', rm.comp(tag='b'))]],
    [[_A('^=', 'x', tag='a'), (' ', rm.comp(tag='b'))]],
    [[_A('$=', 'y'), ('+', rm.comp(tag='b'))]],
    [[_A('*=', 'x'), ('~', _A('', ''))]],
    [[rm.comp(pseudos=[('not', [[_A('=', 'x')]])])]],
    [[rm.comp(pseudos=[('is', [[_A('~=', 'x')], [rm.comp(ids=['i1'])]])])]],
    [[rm.comp(tag='a', pseudos=[('has', [('>', [_A('|=', 'x')])])])]],
    [[_A('=', 'x', 'i')]],
    [[rm.comp(pseudos=[('not', [[_A('', '')]])]), ('>', _A('!=', 'x'))]],
    [[rm.comp(tag='a', pseudos=[('has', [('+', [_A('', '', tag='b')])])])]],
    [[_A('', '', pseudos=[('first-child',)])]],
    [[rm.comp(pseudos=[('nth', 'nth-child', 0, 2, [[_A('=', 'x')]])])]],
    [[rm.comp(pseudos=[('where', [[rm.comp(tag='a')], [_A('^=', 'x')]]), ('not', [[rm.comp(pseudos=[('has', [(' ', [_A('$=', 'x')])])])]])])]],
    [[_A('', '', classes=['k'])]],
    [[rm.comp(ids=['i1']), ('>', _A('', ''))]],
    [[_A('', '', pseudos=[('empty',)])]],
    [[_A('', '', pseudos=[('only-of-type',)])]],
    [[rm.comp(pseudos=[('root',)]), ('>', _A('*=', 'y'))]],
]
SYM_REF = part(ALL_SYM_ASTS)
SYM_SELECTORS = [rm.render_list(a) for a in SYM_REF]
SYM_COMPILED = [sv.compile(s) for s in SYM_SELECTORS]
NSYM = len(SYM_SELECTORS)


def symbolic_structure_ok(si: int, v0: str, v1: str, v2: str, p0: bool, p1: bool, p2: bool) -> bool:
    """
    pre: 0 <= si < NSYM
    pre: len(v0) <= SL and len(v1) <= SL and len(v2) <= SL
    post: _
    """
    soup = _sym_tree(v0, v1, v2, p0, p1, p2)
    got = [id(e) for e in SYM_COMPILED[si].select(soup)]
    exp = [id(e) for e in rm.ref_select(SYM_REF[si], soup, html=True)]
    return ret(got == exp)


SL = 2 if TIER == 'quick' else 3
