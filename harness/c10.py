"""C10 — escape() output always parses back to the original identifier."""
from __future__ import annotations
from vlib.hsupport import *  # noqa: F401,F403
from vlib.hsupport import bs4, cm, cp, ct, sv, util, ret, part, TIER, html_soup, raw_compile

EMPTY_LIST = ct.SelectorList()
STAR = ct.SelectorTag('*', None)


def _only(c, ids=(), classes=()):
    """The compiled selector is exactly one compound: implied `*`, the given ids/classes, nothing else."""
    sl = c.selectors
    if len(sl) != 1 or sl.is_not:
        return False
    s = sl[0]
    return (
        isinstance(s, ct.Selector) and s.tag == STAR and s.ids == ids and s.classes == classes and
        s.attributes == () and s.nth == () and s.selectors == () and len(s.relation) == 0 and
        s.rel_type is None and s.contains == () and s.lang == () and s.flags == 0
    )


def _value(s: str) -> str:
    out = ''
    for ch in s:
        out += '�' if ch == '\x00' else ch
    return out


ALL_RANGES = [(0, 0x20), (0x20, 0x2d), (0x2d, 0x30), (0x30, 0x3a), (0x3a, 0x41), (0x41, 0x5b), (0x5b, 0x61), (0x61, 0x7b),
              (0x7b, 0x80), (0x80, 0xa0), (0xa0, 0xd800), (0xd800, 0xe000), (0xe000, 0x10000), (0x10000, 0x110000)]
RANGES = part(ALL_RANGES)


def _first_in_part(s: str) -> bool:
    """The first character lies in one of the code point ranges this process is responsible for."""
    o = ord(s[0])
    return any(lo <= o < hi for lo, hi in RANGES)


def escape_total_ok(s: str) -> bool:
    """
    pre: len(s) <= EL
    post: _
    """
    # escape never raises and returns a string
    return ret(isinstance(cp.escape(s), str))


def id_roundtrip_ok(s: str) -> bool:
    """
    pre: 1 <= len(s) <= SL
    pre: _first_in_part(s)
    post: _
    """
    v = _value(s)
    c = raw_compile('#' + cp.escape(s))
    return ret(_only(c, ids=(v,)))


def class_roundtrip_ok(s: str) -> bool:
    """
    pre: 1 <= len(s) <= SL
    pre: _first_in_part(s)
    post: _
    """
    v = _value(s)
    c = raw_compile('.' + cp.escape(s))
    return ret(_only(c, classes=(v,)))


def attr_roundtrip_ok(s: str) -> bool:
    """
    pre: 1 <= len(s) <= SL
    pre: _first_in_part(s)
    post: _
    """
    # '[a=' + escape(s) + ']' : one compound with one attribute selector on `a` whose pattern accepts exactly v
    v = _value(s)
    c = raw_compile('[a=' + cp.escape(s) + ']')
    sl = c.selectors
    if len(sl) != 1:
        return ret(False)
    sel = sl[0]
    if not (sel.tag == STAR and sel.ids == () and sel.classes == () and len(sel.attributes) == 1 and
            sel.selectors == () and len(sel.relation) == 0):
        return ret(False)
    a = sel.attributes[0]
    if a.attribute != 'a' or a.prefix != '' or a.xml_type_pattern is not None:
        return ret(False)
    ok = a.pattern.match(v) is not None and a.pattern.match(v + 'x') is None and a.pattern.match('x' + v) is None
    return ret(ok)


def select_roundtrip_ok(s: str, which: int) -> bool:
    """
    pre: 1 <= len(s) <= 1
    pre: _first_in_part(s)
    pre: 0 <= which <= 2
    post: _
    """
    # on a tree: exactly the element carrying the value is selected (neighbours with v+'x' / no attribute are not)
    v = _value(s)
    soup = html_soup()
    els = []
    for val in (v, v + 'x', None):
        e = soup.new_tag('p')
        soup.append(e)
        if val is not None:
            if which == 0:
                e.attrs['id'] = val
            elif which == 1:
                e.attrs['class'] = [val, 'zz']
            else:
                e.attrs['a'] = val
        els.append(e)
    pat = ('#', '.', '[a=')[which] + cp.escape(s) + ('', '', ']')[which]
    r = raw_compile(pat).select(soup)
    return ret(len(r) == 1 and r[0] is els[0])


def embedded_ok(s: str) -> bool:
    """
    pre: 1 <= len(s) <= 1
    pre: _first_in_part(s)
    post: _
    """
    # the escaped text does not alter the surrounding selector: 'div#<esc>.k > p' keeps its structure
    v = _value(s)
    c = raw_compile('div#' + cp.escape(s) + '.k > p')
    sl = c.selectors
    if len(sl) != 1:
        return ret(False)
    p = sl[0]
    if p.tag != ct.SelectorTag('p', None) or len(p.relation) != 1 or p.ids != () or p.classes != ():
        return ret(False)
    d = p.relation[0]
    return ret(d.tag == ct.SelectorTag('div', None) and d.ids == (v,) and d.classes == ('k',) and d.rel_type == '>')


SL = 1 if TIER == 'quick' else 2
EL = 2 if TIER == 'quick' else 3


# one symbolic character in each position class of escape(): first (with a follower), interior, last, directly after a
# leading dash (alone / followed), after a double dash.  The rest of the identifier is concrete, so tokenising stays cheap.
SHAPES = [('', 'b'), ('a', 'b'), ('ab', ''), ('-', ''), ('-', 'b'), ('--', ''), ('a-', ''), ('-a', ''), ('_', '-')]
SHAPES_P = part(SHAPES)


def position_roundtrip_ok(c: str, si: int, which: int) -> bool:
    """
    pre: len(c) == 1
    pre: 0 <= si < len(SHAPES_P)
    pre: 0 <= which <= 2
    post: _
    """
    pre, post = SHAPES_P[si]
    s = pre + c + post
    v = _value(s)
    esc = cp.escape(s)
    if which == 0:
        return ret(_only(raw_compile('#' + esc), ids=(v,)))
    if which == 1:
        return ret(_only(raw_compile('.' + esc), classes=(v,)))
    comp = raw_compile('div#' + esc + '.k > p')
    sl = comp.selectors
    if len(sl) != 1 or len(sl[0].relation) != 1:
        return ret(False)
    d = sl[0].relation[0]
    return ret(sl[0].tag == ct.SelectorTag('p', None) and d.ids == (v,) and d.classes == ('k',) and d.rel_type == '>')


# Bounded enumeration companion of position_roundtrip_ok: the same shapes and questions for every code point up to U+02FF and
# the boundary code points, run natively once the solver has fixed the block index (the symbolic variant is a time-boxed
# search and reaches a particular character only when its path happens to be explored).
ENUM_POINTS = list(range(0, 0x300)) + [0x2028, 0x2029, 0xd7ff, 0xd800, 0xdbff, 0xdc00, 0xdfff, 0xe000, 0xfdd0, 0xfeff,
                                       0xfffd, 0xfffe, 0xffff, 0x10000, 0x1f600, 0xe0001, 0x10fffe, 0x10ffff]
ENUM_BLOCKS = part([ENUM_POINTS[i:i + 16] for i in range(0, len(ENUM_POINTS), 16)])
TWO = ['a', '-', '\n', ' ', '0', '\\', '\x00', '\x7f', '\x80', 'é', '"']


_XML_SOUP = bs4.BeautifulSoup('<r><p/><p/></r>', 'xml')
_HTML_SOUP = bs4.BeautifulSoup('<div><p></p><p></p></div>', 'html.parser')


def position_enum_ok(bi: int) -> bool:
    """
    pre: 0 <= bi < len(ENUM_BLOCKS)
    post: _
    """
    bi = concrete(bi)
    with notrace():
        ok = True
        for o in ENUM_BLOCKS[bi]:
            c = chr(o)
            cands = [pre + c + post for pre, post in SHAPES] + [c] + [c + t for t in TWO] + [t + c for t in TWO]
            for s in cands:
                v = _value(s)
                esc = cp.escape(s)
                try:
                    ok = ok and _only(sv.compile('#' + esc), ids=(v,)) and _only(sv.compile('.' + esc), classes=(v,))
                    sl = sv.compile('div#' + esc + '.k > p').selectors
                    ok = ok and len(sl) == 1 and len(sl[0].relation) == 1 and sl[0].relation[0].ids == (v,) and \
                        sl[0].relation[0].classes == ('k',) and sl[0].tag == ct.SelectorTag('p', None)
                    at = sv.compile('[t=' + esc + ']').selectors
                    ok = ok and len(at) == 1 and len(at[0].attributes) == 1 and at[0].attributes[0].pattern.fullmatch(v) is not None
                except Exception:
                    ok = False
                if not ok:
                    return ret(False)
            # on trees whose class attribute is one string (XML trees, attributes assigned as text): the class list is split
            # at CSS white space only, so 'a' + c + 'b' stays one class for every other character
            if c not in ' \t\n\r\f\x00':
                name = 'a' + c + 'b'
                for soup in (_XML_SOUP, _HTML_SOUP):
                    e1, e2 = soup.find_all('p')
                    e1.attrs['class'] = name + ' zz'
                    e2.attrs['class'] = 'a b zz ' + c
                    got = sv.select('.' + cp.escape(name), soup)
                    if not (len(got) == 1 and got[0] is e1):
                        return ret(False)
    return ret(ok)
