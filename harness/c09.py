"""C09 — compiled meaning depends only on the token sequence, not on its spelling."""
from __future__ import annotations
import os
from vlib.hsupport import *  # noqa: F401,F403
from vlib.hsupport import bs4, cm, cp, ct, sv, util, ret, part, TIER, concrete, notrace, PART, NPARTS
from vlib import refmodel as rm, selgen, respell, treegen as tg

SEED = int(os.environ.get('VERIF_SEED', '0') or 0)
WSCH = ' \t\n\r\f'
FALPHA = ' \n/*a'


def is_wsc(u: str) -> bool:
    """Reference: u is a sequence of CSS whitespace characters and complete comments (CSS Syntax 3)."""
    i, n = 0, len(u)
    while i < n:
        c = u[i]
        if c in WSCH:
            i += 1
        elif c == '/' and i + 1 < n and u[i + 1] == '*':
            j = i + 2
            while j + 1 < n and not (u[j] == '*' and u[j + 1] == '/'):
                j += 1
            if j + 1 >= n:
                return False
            i = j + 2
        else:
            return False
    return True


def has_ws(u: str) -> bool:
    """u (a ws/comment sequence) contains a whitespace character outside comments."""
    i, n = 0, len(u)
    while i < n:
        if u[i] in WSCH:
            return True
        j = i + 2
        while j + 1 < n and not (u[j] == '*' and u[j + 1] == '/'):
            j += 1
        i = j + 2
    return False


TOKENS = cp.CSSParser.css_tokens
_tok_name = lambda t: getattr(t, 'name', None) or t.get_name()  # noqa: E731


def first_token(pattern: str, index: int):
    """One step of the real tokenizer loop (same order, same objects)."""
    for v in TOKENS:
        m = v.match(pattern, index, 0)
        if m:
            return v, m
    return None, None


BODY = 'a*/ >,'


def _body_ok(b: str) -> bool:
    """b can be the inside of a comment: it does not contain the terminator (nor start it with the closing '*')."""
    if len(b) > BL:
        return False
    for c in b:
        if c not in BODY:
            return False
    for i in range(len(b) - 1):
        if b[i] == '*' and b[i + 1] == '/':
            return False
    return True


def atom(k: int, b: str) -> str:
    """One whitespace/comment atom: k selects the shape, b is the (symbolic) comment body."""
    if k == 0:
        return ''
    if k == 1:
        return ' '
    if k == 2:
        return '\n'
    if k == 3:
        return '\r\n'
    if k == 4:
        return '/*' + b + '*/'
    if k == 5:
        return ' /*' + b + '*/'
    return '/*' + b + '*/\t'


def combinator_token_ok(k1: int, b1: str, k2: int, b2: str, k3: int, b3: str, k4: int, b4: str, ci: int) -> bool:
    """
    pre: 0 <= k1 <= 6 and 0 <= k2 <= 6 and 0 <= k3 <= 6 and 0 <= k4 <= 6
    pre: _body_ok(b1) and _body_ok(b2) and _body_ok(b3) and _body_ok(b4)
    pre: 0 <= ci <= 3
    post: _
    """
    # at the position after a compound, 'u C v' (u, v = two whitespace/comment atoms each, comment bodies symbolic) is
    # consumed as ONE combine token whose relation is C
    c = '>+~,'[ci]
    u = atom(k1, b1) + atom(k2, b2)
    v = atom(k3, b3) + atom(k4, b4)
    pat = 'a' + u + c + v + 'b'
    tok, m = first_token(pat, 1)
    return ret(tok is not None and _tok_name(tok) == 'combine' and m.end(0) == len(pat) - 1 and
               m.group('relation') == c)


def descendant_token_ok(k1: int, b1: str, k2: int, b2: str, k3: int, b3: str) -> bool:
    """
    pre: 0 <= k1 <= 6 and 0 <= k2 <= 6 and 0 <= k3 <= 6
    pre: _body_ok(b1) and _body_ok(b2) and _body_ok(b3)
    pre: k1 in (1, 2, 3, 5, 6) or k2 in (1, 2, 3, 5, 6) or k3 in (1, 2, 3, 5, 6)
    post: _
    """
    # three atoms, at least one containing whitespace, between two compounds: one descendant combinator covering all
    u = atom(k1, b1) + atom(k2, b2) + atom(k3, b3)
    pat = 'a' + u + 'b'
    tok, m = first_token(pat, 1)
    return ret(tok is not None and _tok_name(tok) == 'combine' and m.end(0) == len(pat) - 1 and
               m.group('relation').strip() == '')


def close_token_ok(k1: int, b1: str, k2: int, b2: str) -> bool:
    """
    pre: 0 <= k1 <= 6 and 0 <= k2 <= 6
    pre: _body_ok(b1) and _body_ok(b2)
    post: _
    """
    # filler before ')' belongs to the closing token (never a descendant combinator)
    u = atom(k1, b1) + atom(k2, b2)
    pat = ':is(a' + u + ')'
    tok, m = first_token(pat, 5)
    return ret(tok is not None and _tok_name(tok) == 'pseudo_close' and m.end(0) == len(pat))


def tail_ok(u: str, mid: str) -> bool:
    """
    pre: len(u) <= FL + 1 and len(mid) <= 2
    pre: all(c in FALPHA for c in u) and all(c in '/*a ' for c in mid)
    post: _
    """
    # the insignificant tail is recognised exactly: after 'a' + COMMENT + mid, RE_WS_END at a token boundary matches
    # iff the rest is whitespace/comments only (mid exercises text such as '*' right after a comment terminator)
    pat = 'a /*c*/' + mid + u
    idx = len('a /*c*/' + mid)
    got = cp.RE_WS_END.match(pat, idx) is not None
    return ret(got == is_wsc(u))


FL = 3 if TIER == 'quick' else 5
BL = 2 if TIER == 'quick' else 3
BADCH = '\x00\n\r\f'

# ---- escapes / quotes (kernel) ------------------------------------------------------------------------------


def escape_spelling_ok(s: str, mode: int) -> bool:
    """
    pre: 1 <= len(s) <= 2
    pre: 0 <= mode <= 2
    pre: all(c not in BADCH for c in s)
    post: _
    """
    # an identifier/string character written as \\hex-space, \\6-digit-hex or (non-hex, non-newline) \\char decodes
    # to itself
    out = ''
    for ch in s:
        if mode == 0:
            out += '\\' + ('%x' % ord(ch)) + ' '
        elif mode == 1:
            out += '\\' + ('%06x' % ord(ch)) + ' '
        else:
            out += ('\\' + ch) if ch not in '0123456789abcdefABCDEF' else ch
    return ret(cp.css_unescape(out) == s and cp.css_unescape(out, True) == s)


# ---- end to end: respelled selector == canonical selector -------------------------------------------------------

EXTRA = [
    [[rm.comp(tag='p', pseudos=[('lang', ['en', 'de-DE'])])]],
    [[rm.comp(pseudos=[('lang', ['*-US'])]), ('>', rm.comp(tag='a'))]],
    [[rm.comp(pseudos=[('dir', 'ltr')])]], [[rm.comp(tag='p', pseudos=[('dir', 'rtl')])]],
    [[rm.comp(pseudos=[('contains', '-soup-contains', ['x', 'a b'])])]],
    [[rm.comp(pseudos=[('contains', '-soup-contains-own', ['te', 'q"r'])])]],
    [[rm.comp(tag='a'), (' ', rm.comp(tag='b')), ('>', rm.comp(tag='a')), ('+', rm.comp(tag='b')), ('~', rm.comp(tag='a'))]],
    [[rm.comp(tag='a')], [rm.comp(tag='b')], [rm.comp(classes=['k'])]],
    [[rm.comp(pseudos=[('is', [[rm.comp(tag='a')], [rm.comp(tag='b')]])])]],
    [[rm.comp(tag='p'), (' ', rm.comp(tag='*')), ('>', rm.comp(tag='b'))]],
    [[rm.comp(tag='p', attrs=[(None, 't', '*=', 'a', None)]), ('~', rm.comp(ids=['i']))]],
    [[rm.comp(pseudos=[('nth', 'nth-child', 2, 1, [[rm.comp(classes=['k'])], [rm.comp(tag='a')]])])]],
    [[rm.comp(tag='a', ns='x'), ('>', rm.comp(tag='*', ns='*'))]],
    [[rm.comp(attrs=[('x', 't', '=', 'v', 'i')])]],
    [[rm.comp(pseudos=[('checked',)])], [rm.comp(pseudos=[('root',), ('empty',)])]],
    # values that begin / end with a quote character or a backslash (the delimiters are removed exactly once)
    [[rm.comp(attrs=[(None, 't', '=', 'the "best"', None)])]], [[rm.comp(attrs=[(None, 't', '$=', "it's'", None)])]],
    [[rm.comp(attrs=[(None, 't', '^=', '"', None)])]], [[rm.comp(attrs=[(None, 't', '~=', "''", None)])]],
    [[rm.comp(attrs=[(None, 't', '*=', 'a\\', None)]), ('>', rm.comp(tag='b'))]],
    [[rm.comp(pseudos=[('contains', '-soup-contains', ['"x"', "'"])])]],
    [[rm.comp(pseudos=[('contains', '-soup-contains-own', ['\\', 'q"'])])]],
    [[rm.comp(pseudos=[('lang', ['en', "e'"])])]],
    # identifiers that end / begin with a character str.strip() would remove (escaped in every spelling)
    [[rm.comp(ids=['a '])]], [[rm.comp(classes=['k', 'b\xa0'])]], [[rm.comp(tag='p'), ('>', rm.comp(ids=['\u3000']))]],
    [[rm.comp(classes=[' k'])]], [[rm.comp(attrs=[(None, 't', '=', 'v ', None)])]], [[rm.comp(ids=['x\x1f'])]],
]
NRAND = 1000 if TIER == 'quick' else 6000
ASTS = part(EXTRA + selgen.ast_pool(NRAND, SEED + 9, depth=2))
NAST = len(ASTS)
NS = {'x': 'urn:x'}
DOCS = [tg.doc('plain_hp'), tg.doc('xml'), tg.doc('forms_hp')]
NSPELL = 12 if TIER == 'quick' else 40


def _canon(a):
    return respell.render(a, 0, level=0.0)


def respelling_ok(si: int) -> bool:
    """
    pre: 0 <= si < NAST
    post: _
    """
    # NSPELL seeded respellings of the selector (whitespace/comment fillers at every gap, escapes, quote style, case
    # of pseudo-class names / An+B keywords / of / :dir() arguments / i,s flags): equal compiled structure and equal
    # select() results on three documents
    si = concrete(si)
    with notrace():
        a = ASTS[si]
        import warnings
        warnings.simplefilter('ignore')
        base = sv.compile(_canon(a), NS)
        ok = True
        for k in range(NSPELL):
            text = respell.render(a, 1 + k + 1000 * (si * NPARTS + PART) + 7919 * SEED)
            try:
                c = sv.compile(text, NS)
            except Exception:  # noqa: BLE001
                ok = False
                break
            ok = ok and c.selectors == base.selectors
            for d in DOCS:
                ok = ok and [id(e) for e in c.select(d)] == [id(e) for e in base.select(d)]
    return ret(ok)
