"""C15 — compiled selectors are immutable values; the pattern cache is transparent."""
from __future__ import annotations
import copy
import pickle
from vlib.hsupport import *  # noqa: F401,F403
from vlib.hsupport import bs4, cm, cp, ct, sv, util, ret, part, TIER, html_soup, concrete, notrace, raw_compile
from vlib import selgen, treegen as tg

ARGS = [
    ('p', None, None, 0), ('p', None, None, False), ('p', {}, None, 0), ('p', None, {}, 0), ('p', None, None, sv.DEBUG),
    ('p', None, None, True), ('P', None, None, 0), ('p ', None, None, 0),
    ('x|p', {'x': 'urn:x', 'y': 'urn:y'}, None, 0), ('x|p', {'y': 'urn:y', 'x': 'urn:x'}, None, 0),
    ('x|p', {'x': 'urn:x'}, None, 0), ('x|p', {'x': 'urn:X', 'y': 'urn:y'}, None, 0),
    (':--a', None, {':--a': 'p', ':--b': 'div'}, 0), (':--a', None, {':--b': 'div', ':--a': 'p'}, 0),
    (':--a', None, {':--a': 'p'}, 0), (':--a', None, {':--a': 'div', ':--b': 'div'}, 0),
    (':--a', {'x': 'urn:x'}, {':--a': 'p'}, 0), ('p:nth-child(2n+1)', None, None, 0), ('p:nth-child(odd)', None, None, 0),
    ('a > b', None, None, 0), ('a b', None, None, 0), ('a + b', None, None, 0), ('[type=a]', None, None, 0),
    ('[type=a i]', None, None, 0), (':is(a)', None, None, 0), (':where(a)', None, None, 0), ('p', {'x': 'urn:x'}, None, 0),
]
NARGS = len(ARGS)


def _equiv(x, y):
    return x[0] == y[0] and x[1] == y[1] and x[2] == y[2] and x[3] == y[3]


def _silent(fn):
    import io
    import contextlib
    with contextlib.redirect_stdout(io.StringIO()):
        return fn()


def eq_hash_ok(i: int) -> bool:
    """
    pre: 0 <= i < NARGS
    post: _
    """
    # compile(x) == compile(y) exactly when the argument tuples are equal; equal objects have equal hashes; for the
    # tuple x chosen by symbolic index against every tuple y, with and without a purge in between
    i = concrete(i)
    ok = True
    with notrace():
        for j in range(NARGS):
            for purge_between in (False, True):
                x, y = ARGS[i], ARGS[j]
                sv.purge()
                a = _silent(lambda: sv.compile(x[0], x[1], x[3], custom=x[2]))
                if purge_between:
                    sv.purge()
                b = _silent(lambda: sv.compile(y[0], y[1], y[3], custom=y[2]))
                eq = a == b
                ok = ok and eq == _equiv(x, y) and (a != b) == (not eq)
                if eq:
                    ok = ok and hash(a) == hash(b) and hash(a.selectors) == hash(b.selectors)
                    ok = ok and len({a, b}) == 1
    return ret(ok)


POOL = part(selgen.general_pool())
NPOOL = len(POOL)
NSMAP = {'x': 'urn:x', 'svg': 'http://www.w3.org/2000/svg'}
DOC = tg.doc('plain_hp')
XDOC = tg.doc('xml')


def _nodes(obj, out):
    """Every Immutable / ImmutableDict node reachable from a compiled selector."""
    if isinstance(obj, ct.Immutable):
        out.append(obj)
        for s in obj.__slots__:
            if s != '_hash':
                _nodes(getattr(obj, s), out)
    elif isinstance(obj, ct.ImmutableDict):
        out.append(obj)
    elif isinstance(obj, tuple):
        for x in obj:
            _nodes(x, out)
    return out


ALLPOOL = selgen.general_pool() + ['a > b', 'a b', 'a + b', 'a ~ b', '[type=a]', '[type=a i]', '[type=A]', '[t=a]', '[t=a s]',
                                 ':is(a)', ':where(a)', ':not(a)', ':has(a)', ':has(> a)', 'p:first-child', 'p:nth-child(1)',
                                 'p:nth-last-child(1)', 'p:nth-of-type(1)', ':nth-child(1 of a)', ':nth-child(1 of b)',
                                 ':lang(en)', ':lang(fr)', ':-soup-contains(a)', ':-soup-contains-own(a)', ':dir(ltr)',
                                 ':dir(rtl)', 'x|a', '*|a', '|a', 'a', ':root', ':empty', ':scope', '.a', '#a', '[a]', '[x|a]']
ALLPOOL = [x for i, x in enumerate(ALLPOOL) if x not in ALLPOOL[:i]]
ALLC = [sv.compile(x, {'x': 'urn:x', 'svg': 'http://www.w3.org/2000/svg'}, custom={':--z': 'p'}).selectors for x in ALLPOOL]
ALLP = part(list(range(len(ALLPOOL))))


def ir_eq_repr_ok(i: int) -> bool:
    """
    pre: 0 <= i < len(ALLP)
    post: _
    """
    # structural equality of compiled structures agrees with equality of their reprs (which show every slot, incl. regex
    # flags): no field is ignored by __eq__ / __ne__, and equal structures hash equally
    i = concrete(i)
    with notrace():
        a = ALLC[ALLP[i]]
        ok = True
        for b in ALLC:
            same = repr(a) == repr(b)
            ok = ok and (a == b) == same and (a != b) == (not same)
            if same:
                ok = ok and hash(a) == hash(b)
    return ret(ok)


def immutable_ok(i: int) -> bool:
    """
    pre: 0 <= i < NPOOL
    post: _
    """
    # every node of the structure rejects setattr and delattr on every slot (AttributeError) and is unchanged; every
    # node is hashable; read-only maps reject item assignment
    i = concrete(i)
    with notrace():
        c = sv.compile(POOL[i], NSMAP, custom={':--z': 'p'})
        before = repr(c.selectors) + repr(c)
        ok = True
        for n in _nodes(c, []):
            hash(n)
            if isinstance(n, ct.Immutable):
                for slot in list(n.__slots__) + ['brand_new']:
                    for op in ('set', 'del'):
                        try:
                            if op == 'set':
                                setattr(n, slot, 1)
                            else:
                                delattr(n, slot)
                            ok = False
                        except AttributeError:
                            pass
            else:
                try:
                    n['k'] = 'v'
                    ok = False
                except TypeError:
                    pass
                try:
                    del n['x']
                    ok = False
                except TypeError:
                    pass
        ok = ok and repr(c.selectors) + repr(c) == before
    return ret(ok)


def copies_ok(i: int) -> bool:
    """
    pre: 0 <= i < NPOOL
    post: _
    """
    # pickle, copy and deepcopy yield an equal object (equal hash) that selects the same elements
    i = concrete(i)
    with notrace():
        c = sv.compile(POOL[i], NSMAP, custom={':--z': 'p'})
        ok = True
        for d in (pickle.loads(pickle.dumps(c)), copy.copy(c), copy.deepcopy(c),
                  pickle.loads(pickle.dumps(c, protocol=2))):
            ok = ok and d == c and hash(d) == hash(c) and not (d != c)
            ok = ok and d.selectors == c.selectors and d.pattern == c.pattern and d.namespaces == c.namespaces
            for docu in (DOC, XDOC):
                ok = ok and [id(e) for e in d.select(docu)] == [id(e) for e in c.select(docu)]
    return ret(ok)


MAPCASES = [
    ('x|p, y|p', {'x': 'urn:x', 'y': 'urn:y'}, None), ('x|e', {'x': 'urn:x'}, None), ('p', {'': 'urn:x'}, None),
    (':--a', None, {':--a': 'p', ':--b': 'div'}), (':--b > :--a', {'x': 'urn:x'}, {':--a': 'x|e, p', ':--b': 'div, r'}),
    ('p:--a', {'x': 'urn:x', '': 'http://www.w3.org/1999/xhtml'}, {':--a': ':is(.a, [t])'}),
]
MUTATIONS = ['clear', 'change', 'add', 'delete', 'retarget']


def _mutate(d, how):
    if d is None:
        return
    if how == 'clear':
        d.clear()
    elif how == 'change':
        for k in list(d):
            d[k] = d[k] + '0' if not d[k].startswith(('p', ':', 'd', 'x')) else 'span'
    elif how == 'add':
        d['z' if not any(k.startswith(':') for k in d) else ':--zz'] = 'urn:z' if not any(k.startswith(':') for k in d) else 'b'
    elif how == 'delete':
        d.pop(sorted(d)[0])
    else:
        ks = sorted(d)
        vs = [d[k] for k in ks]
        for k, v in zip(ks, vs[1:] + vs[:1]):
            d[k] = v


def caller_maps_ok(ci: int, mi: int, purge_first: bool) -> bool:
    """
    pre: 0 <= ci < len(MAPCASES)
    pre: 0 <= mi < len(MUTATIONS)
    post: _
    """
    # the compiled object does not alias the caller's namespaces / custom dictionaries: after the caller changes them the
    # object is what it was (maps, hash, equality with its own copies and with a compile from the original maps, selection)
    ci, mi, purge_first = concrete(ci), concrete(mi), concrete(purge_first)
    with notrace():
        pat, ns0, cu0 = MAPCASES[ci]
        ns = dict(ns0) if ns0 is not None else None
        cu = dict(cu0) if cu0 is not None else None
        sv.purge()
        c = sv.compile(pat, ns, custom=cu)
        before = (repr(c.selectors), dict(c.namespaces) if c.namespaces is not None else None,
                  dict(c.custom) if c.custom is not None else None, hash(c),
                  [[id(e) for e in c.select(d)] for d in (DOC, XDOC)])
        twin = pickle.loads(pickle.dumps(c))
        _mutate(ns, MUTATIONS[mi])
        _mutate(cu, MUTATIONS[mi])

        def _again():
            try:
                return sv.compile(pat, ns, custom=cu)
            except Exception as e:
                return type(e).__name__
        # the same (now changed) dict objects passed again, before any other compile call
        again = None if purge_first else _again()
        if purge_first:
            sv.purge()
        after = (repr(c.selectors), dict(c.namespaces) if c.namespaces is not None else None,
                 dict(c.custom) if c.custom is not None else None, hash(c),
                 [[id(e) for e in c.select(d)] for d in (DOC, XDOC)])
        ok = before == after and c == twin and hash(c) == hash(twin) and c == copy.deepcopy(c)
        ok = ok and before[1] == ns0 and before[2] == cu0
        fresh = sv.compile(pat, dict(ns0) if ns0 is not None else None, custom=dict(cu0) if cu0 is not None else None)
        ok = ok and fresh == c and hash(fresh) == hash(c)
        def _reference():
            try:
                return sv.compile(pat, dict(ns) if ns is not None else None, custom=dict(cu) if cu is not None else None)
            except Exception as e:
                return type(e).__name__
        if again is None:
            again = _again()
        sv.purge()
        ref = _reference()
        ok = ok and ((again == ref) if isinstance(ref, str) or isinstance(again, str) else
                     (again == ref and again.namespaces == ref.namespaces and again.custom == ref.custom and
                      repr(again.selectors) == repr(ref.selectors)))
    return ret(ok)


HIST = ['p', 'div > p', 'x|p', ':--z', 'PURGE', 'p', ':nth-child(2n+1)', 'PURGE', '[a=b]', ':lang(en)']


def cache_history_ok(h0: int, h1: int, h2: int, h3: int, oi: int) -> bool:
    """
    pre: 0 <= h0 < len(HIST) and 0 <= h1 < len(HIST) and 0 <= h2 < len(HIST) and 0 <= h3 < len(HIST)
    pre: 0 <= oi < NPOOL
    post: _
    """
    # whatever compile/purge calls came before, compile(x) equals a fresh parse that bypasses the cache, a second
    # compile(x) returns the identical object, and purge empties the cache
    h = [concrete(v) for v in (h0, h1, h2, h3)]
    oi = concrete(oi)
    with notrace():
        ok = True
        for k in h:
            if HIST[k] == 'PURGE':
                sv.purge()
                ok = ok and cp._cached_css_compile.cache_info().currsize == 0
            else:
                sv.compile(HIST[k], NSMAP, custom={':--z': 'p'})
        got = sv.compile(POOL[oi], NSMAP, custom={':--z': 'p'})
        fresh = raw_compile(POOL[oi], NSMAP, {':--z': 'p'})
        ok = ok and got == fresh and hash(got) == hash(fresh) and got.selectors == fresh.selectors
        ok = ok and sv.compile(POOL[oi], NSMAP, custom={':--z': 'p'}) is got
        ok = ok and sv.compile(got) is got
        info = cp._cached_css_compile.cache_info()
        ok = ok and info.maxsize == 500 and info.currsize <= info.maxsize
        sv.purge()
        ok = ok and cp._cached_css_compile.cache_info().currsize == 0
    return ret(ok)


def cache_bound_ok(n: int) -> bool:
    """
    pre: 501 <= n <= 520
    post: _
    """
    # more distinct patterns than the bound: the cache never holds more than 500 entries and stays transparent
    n = concrete(n)
    with notrace():
        sv.purge()
        ok = True
        for k in range(n):
            sv.compile('p.c%d' % k)
            ok = ok and cp._cached_css_compile.cache_info().currsize <= 500
        ok = ok and cp._cached_css_compile.cache_info().currsize == 500
        ok = ok and sv.compile('p.c0') == raw_compile('p.c0')
        sv.purge()
    return ret(ok)


def compiled_passthrough_ok(i: int) -> bool:
    """
    pre: 0 <= i < NPOOL
    post: _
    """
    i = concrete(i)
    ok = True
    with notrace():
        c = sv.compile(POOL[i], NSMAP)
        ok = ok and sv.compile(c) is c and sv.compile(c, None, 0, custom=None) is c
        for kw in (dict(flags=sv.DEBUG), dict(namespaces={}), dict(custom={}), dict(namespaces={'a': 'b'})):
            try:
                sv.compile(c, **kw)
                ok = False
            except ValueError:
                pass
    return ret(ok)


# ---- IR value types: Eq/hash consistency with symbolic field values ---------------------------------------


def tag_eq_hash_ok(n1: str, n2: str, p1: str, p2: str, nop1: bool, nop2: bool) -> bool:
    """
    pre: len(n1) <= 2 and len(n2) <= 2 and len(p1) <= 1 and len(p2) <= 1
    post: _
    """
    a = ct.SelectorTag(n1, None if nop1 else p1)
    b = ct.SelectorTag(n2, None if nop2 else p2)
    same = n1 == n2 and (None if nop1 else p1) == (None if nop2 else p2)
    ok = (a == b) == same and (a != b) == (not same)
    if same:
        ok = ok and hash(a) == hash(b)
    return ret(ok)


def nth_eq_hash_ok(a1: int, b1: int, a2: int, b2: int, n1: bool, n2: bool, asbool: bool) -> bool:
    """
    pre: -3 <= a1 <= 3 and -3 <= a2 <= 3 and -3 <= b1 <= 3 and -3 <= b2 <= 3
    post: _
    """
    # equal field values (1 == True in Python) must give equal objects and equal hashes
    e = ct.SelectorList()
    x = ct.SelectorNth(bool(a1) if asbool and a1 in (0, 1) else a1, n1, b1, False, False, e)
    y = ct.SelectorNth(a2, n2, b2, False, False, e)
    same = a1 == a2 and b1 == b2 and n1 == n2
    ok = (x == y) == same
    if same:
        ok = ok and hash(x) == hash(y)
    return ret(ok)


def dict_eq_hash_ok(k1: str, v1: str, k2: str, v2: str, swap: bool) -> bool:
    """
    pre: len(k1) <= 1 and len(k2) <= 1 and len(v1) <= 1 and len(v2) <= 1
    post: _
    """
    # read-only maps: equality is dict equality, independent of insertion order; equal maps hash equally
    d1 = {k1: v1, k2: v2}
    d2 = {k2: v2, k1: v1} if swap else {k1: v1, k2: v2}
    if swap and k1 == k2:
        d2 = dict(d1)
    a, b = ct.Namespaces(d1), ct.Namespaces(d2)
    c = ct.CustomSelectors(d1)
    ok = a == b and hash(a) == hash(b) and dict(a) == d1 and len(a) == len(d1)
    ok = ok and (a == c) == (dict(a) == dict(c))
    return ret(ok)
