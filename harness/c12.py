"""C12 — namespace selectors compare namespace URIs through the supplied prefix map."""
from __future__ import annotations
from vlib.hsupport import *  # noqa: F401,F403
from vlib.hsupport import bs4, cm, cp, ct, sv, util, ret, part, TIER, html_soup, xml_soup, concrete, notrace
from vlib import treegen as tg

NamespacedAttribute = bs4.element.NamespacedAttribute

ELEMENT_SELECTORS = ['x|e', '*|e', '|e', 'e', 'x|*', ':is(x|e)', ':not(x|e)', 'y|e', ':is(e)', '*', '*|*', 'x|e, |e',
                     ':is(|e, x|e)', 'x|r > *|e', ':not(|e)']


def _ref_el(sel, el_ns, is_e, m):
    """Reference for one element (namespace URI el_ns or '' for none; is_e: local name is 'e'; m: caller's map)."""
    dflt = m.get('')

    def ns_prefix(p):        # 'x|...'
        return p in m and el_ns == m[p]

    def bare():              # 'e' / '*' : any namespace unless a default is declared
        return dflt is None or el_ns == dflt
    table = {
        'x|e': lambda: is_e and ns_prefix('x'),
        '*|e': lambda: is_e,
        '|e': lambda: is_e and el_ns == '',
        'e': lambda: is_e and bare(),
        'x|*': lambda: ns_prefix('x'),
        # inside :is()/:not() no universal selector is implied for the inner compound, but the OUTER compound
        # ':is(..)' / ':not(..)' is a top-level compound without a type selector: implied '*' in the default namespace
        ':is(x|e)': lambda: bare() and is_e and ns_prefix('x'),
        ':not(x|e)': lambda: bare() and not (is_e and ns_prefix('x')),
        'y|e': lambda: False,
        ':is(e)': lambda: bare() and is_e and bare(),
        '*': bare,
        '*|*': lambda: True,
        'x|e, |e': lambda: is_e and (ns_prefix('x') or el_ns == ''),
        ':is(|e, x|e)': lambda: bare() and is_e and (ns_prefix('x') or el_ns == ''),
        ':not(|e)': lambda: bare() and not (is_e and el_ns == ''),
    }
    return table[sel]()


def element_ns_ok(u_doc: str, u_root: str, u_map: str, u_def: str, has_def: bool, has_x: bool, si: int) -> bool:
    """
    pre: len(u_doc) <= 1 and len(u_root) <= 1 and len(u_map) <= 1 and len(u_def) <= 1
    pre: len(u_map) == 1 and len(u_def) == 1
    pre: 0 <= si < len(ELEMENT_SELECTORS) and ELEMENT_SELECTORS[si] != 'x|r > *|e'
    post: _
    """
    # XML tree <p:r xmlns:p=u_root><q:e xmlns:q=u_doc/><e2/></p:r>; the document's prefixes (p, q) differ from the
    # caller's (x); all four URIs are symbolic strings, so the solver explores their equality structure
    si = concrete(si)
    soup = xml_soup()
    r = soup.new_tag('r')
    soup.append(r)
    e = soup.new_tag('e')
    r.append(e)
    f = soup.new_tag('f')
    r.append(f)
    # namespaces are assigned after construction (bs4's constructor hashes its arguments, which disturbs CrossHair's
    # symbolic strings); the document's prefixes (p, x, q) deliberately collide with / differ from the caller's
    for t, u, pre in ((r, u_root, 'p'), (e, u_doc, 'x'), (f, u_doc, 'q')):
        if u:
            t.namespace = u
            t.prefix = pre
    m = {}
    if has_x:
        m['x'] = u_map
    if has_def:
        m[''] = u_def
    sel = ELEMENT_SELECTORS[si]
    try:
        c = sv.compile(sel, m)
    except Exception:
        return ret(False)
    got = [id(t) for t in c.select(soup)]
    exp = []
    for t, ns, is_e in ((r, u_root, False), (e, u_doc, True), (f, u_doc, False)):
        if _ref_el(sel, ns, is_e, m):
            exp.append(id(t))
    return ret(got == exp)


ATTR_SELECTORS = part(['[x|a]', '[*|a]', '[|a]', '[a]', '[x|b]', '[*|b]', '[|b]', '[b]', '[y|a]', '[x|a=v]', '[*|a="v"]',
                  ':not([x|a])', ':is([*|b], [x|a])', '[*|c]', '[x|c]'])


def _ref_attr(sel, a_ns, m, xml=True):
    """Element has: attribute a in namespace a_ns ('' = none) with value 'v'; attribute b without namespace; no c."""
    has_x = 'x' in m
    xa = has_x and a_ns != '' and a_ns == m['x']
    table = {
        '[x|a]': xa, '[*|a]': True, '[|a]': a_ns == '', '[a]': a_ns == '',
        '[x|b]': False, '[*|b]': True, '[|b]': True, '[b]': True, '[y|a]': False,
        '[x|a=v]': xa, '[*|a="v"]': True, ':not([x|a])': not xa, ':is([*|b], [x|a])': True, '[*|c]': False,
        '[x|c]': False,
    }
    return table[sel]


def attr_ns_ok(u_doc: str, u_map: str, has_x: bool, si: int) -> bool:
    """
    pre: len(u_doc) <= 1 and len(u_map) == 1
    pre: 0 <= si < len(ATTR_SELECTORS)
    post: _
    """
    # <r><e q:a="v" b="w"/></r> in an XML tree; the attribute's namespace URI and the caller's mapping of x are symbolic
    si = concrete(si)
    soup = xml_soup()
    r = soup.new_tag('r')
    soup.append(r)
    e = soup.new_tag('e')
    r.append(e)
    if u_doc:
        e.attrs[NamespacedAttribute('q', 'a', u_doc)] = 'v'
    else:
        e.attrs['a'] = 'v'
    e.attrs['b'] = 'w'
    m = {'x': u_map} if has_x else {}
    sel = ATTR_SELECTORS[si]
    got = any(t is e for t in sv.compile(sel, m).select(soup))
    return ret(got == _ref_attr(sel, u_doc, m))


URIS = ['', 'urn:a', 'urn:b', 'urn:c']


def element_ns_enum_ok(si: int) -> bool:
    """
    pre: 0 <= si < len(ELEMENT_SELECTORS)
    post: _
    """
    # the same relation with URIs drawn from a 4-value pool: every equality pattern of (root ns, element ns, map[x],
    # map['']) x presence of x / default, enumerated natively
    si = concrete(si)
    with notrace():
        sel = ELEMENT_SELECTORS[si]
        ok = True
        for u_root in URIS:
            for u_doc in URIS:
                soup = xml_soup()
                r = soup.new_tag('r', namespace=u_root or None, nsprefix='p' if u_root else None)
                soup.append(r)
                e = soup.new_tag('e', namespace=u_doc or None, nsprefix='x' if u_doc else None)
                r.append(e)
                f = soup.new_tag('f', namespace=u_doc or None, nsprefix='q' if u_doc else None)
                r.append(f)
                for u_map in [None] + URIS:
                    for u_def in [None] + URIS:
                        m = {}
                        if u_map is not None:
                            m['x'] = u_map
                        if u_def is not None:
                            m[''] = u_def
                        got = [id(t) for t in sv.compile(sel, m).select(soup)]
                        exp = []
                        for t, ns, is_e in ((r, u_root, False), (e, u_doc, True), (f, u_doc, False)):
                            if sel == 'x|r > *|e':
                                hit = t is e and 'x' in m and u_root == m['x']
                            else:
                                hit = _ref_el(sel, ns, is_e, m)
                            if hit:
                                exp.append(id(t))
                        ok = ok and got == exp
    return ret(ok)


# ---- parser-built documents -------------------------------------------------------------------------------------

SVG = 'http://www.w3.org/2000/svg'
XLINK = 'http://www.w3.org/1999/xlink'
XHTML = 'http://www.w3.org/1999/xhtml'
MARKUP = ('<html xmlns="%s"><body><p id="p" title="t">x</p><svg xmlns="%s" xmlns:xlink="%s" id="s"><a id="a" '
          'xlink:href="#" href="#h"/><circle id="c"/></svg><a id="ha" href="#">l</a></body></html>' % (XHTML, SVG, XLINK))
PARSED = [('xml', bs4.BeautifulSoup(MARKUP, 'xml')), ('html5lib', bs4.BeautifulSoup(MARKUP, 'html5lib'))]
MAPS = [None, {}, {'svg': SVG, 'xl': XLINK, 'h': XHTML}, {'': XHTML, 'svg': SVG}, {'': SVG, 'xl': XLINK},
        {'svg': XHTML, 'h': SVG}, {'xlink': 'urn:other', 'svg': SVG}]
# (selector, function(map) -> expected ids)
def _m(m, k):
    return (m or {}).get(k)


PARSED_CASES = [
    ('svg|a', lambda m: ['a'] if _m(m, 'svg') == SVG else (['ha'] if _m(m, 'svg') == XHTML else [])),
    ('*|a', lambda m: ['a', 'ha']),
    ('a', lambda m: ['a', 'ha'] if _m(m, '') is None else (['ha'] if _m(m, '') == XHTML else ['a'])),
    ('|a', lambda m: []),
    ('h|a', lambda m: ['ha'] if _m(m, 'h') == XHTML else (['a'] if _m(m, 'h') == SVG else [])),
    ('[xl|href]', lambda m: ['a'] if _m(m, 'xl') == XLINK else []),
    ('[xlink|href]', lambda m: []),
    ('*|*[*|href]', lambda m: ['a', 'ha']),
    ('*|*[|href]', lambda m: ['a', 'ha']),
    ('*|*[href]', lambda m: ['a', 'ha']),
    ('*|*[href="#h"]', lambda m: ['a']),
    ('*|*[*|href="#"]', lambda m: ['a', 'ha']),
    ('svg|*', lambda m: ['s', 'a', 'c'] if _m(m, 'svg') == SVG else (['html', 'body', 'p', 'ha'] if _m(m, 'svg') == XHTML else [])),
    ('svg|circle, p', lambda m: (['c'] if _m(m, 'svg') == SVG else []) + (['p'] if _m(m, '') in (None, XHTML) else [])),
    (':is(svg|a, h|a)', None),
]


def parsed_ns_ok(ci: int, mi: int) -> bool:
    """
    pre: 0 <= ci < len(PARSED_CASES) - 1
    pre: 0 <= mi < len(MAPS)
    post: _
    """
    ci, mi = concrete(ci), concrete(mi)
    with notrace():
        text, expf = PARSED_CASES[ci]
        m = MAPS[mi]
        ok = True
        for name, d in PARSED:
            ids = [(e.get('id') or e.name) for e in sv.select(text, d, namespaces=m) if e.name != 'head']
            exp = expf(m)
            ok = ok and sorted(ids) == sorted(exp)
    return ret(ok)


# ---------------------------------------------------------------------------------------------
# A non-XHTML XML document mixing four namespaces (and none), queried with compound selectors that combine namespace
# tests with pseudo-classes that are HTML-only (they match nothing here, their negation everything) and with lists whose
# members have no type selector.
MIXED = bs4.BeautifulSoup(
    '<r xmlns="urn:i" xmlns:h="http://www.w3.org/1999/xhtml" xmlns:o="urn:o" id="r">'
    '<item id="a1" class="hit" k="1"/><item id="a2" class="other"/><o:item id="b1" class="hit"/>'
    '<o:thing id="b2" class="other" k="2"/><h:div id="h1" class="hit"><h:input id="h2" disabled="" class="other"/>'
    '<h:input id="h3" type="checkbox" checked="" k="3"/></h:div><plain xmlns="" id="n1" class="hit"/></r>', 'xml')
MIXED_ELS = [e for e in MIXED.descendants if isinstance(e, bs4.Tag)]
MIXED_MAPS = [None, {'i': 'urn:i'}, {'i': 'urn:i', 'o': 'urn:o'}, {'': 'urn:i'}, {'': 'urn:o', 'i': 'urn:i'},
              {'': XHTML, 'i': 'urn:o'}, {'html': 'urn:o'}, {'h': XHTML, '': ''}]


def _ns(e):
    return e.namespace or ''


def _cls(e, c):
    return c in (e.get('class') or '').split()


def _pref(m, p, e):
    return m is not None and p in m and m[p] == _ns(e)


def _dflt(m, e):
    """An implied (or bare-name) universal at top level: restricted to the default namespace when the map has one."""
    return m is None or '' not in m or m[''] == _ns(e)


MIXED_CASES = [
    ('i|item:not(:disabled)', lambda e, m: _pref(m, 'i', e) and e.name == 'item'),
    (':checked, i|item', lambda e, m: _pref(m, 'i', e) and e.name == 'item'),
    ('i|item, :checked', lambda e, m: _pref(m, 'i', e) and e.name == 'item'),
    ('*|*:not(:checked):is(i|item, o|item)', lambda e, m: e.name == 'item' and (_pref(m, 'i', e) or _pref(m, 'o', e))),
    ('html|div', lambda e, m: _pref(m, 'html', e) and e.name == 'div'),
    ('*|*:not(:enabled) > html|input', lambda e, m: _pref(m, 'html', e) and e.name == 'input'),
    ('*|*:not(:default) html|*', lambda e, m: _pref(m, 'html', e) and e.get('id') != 'r'),
    (':not(:link), h|div', lambda e, m: _dflt(m, e) or (_pref(m, 'h', e) and e.name == 'div')),
    ('.hit, .other', lambda e, m: _dflt(m, e) and (_cls(e, 'hit') or _cls(e, 'other'))),
    ('.other, .hit', lambda e, m: _dflt(m, e) and (_cls(e, 'hit') or _cls(e, 'other'))),
    ('#b1, #a2, #n1', lambda e, m: _dflt(m, e) and e.get('id') in ('b1', 'a2', 'n1')),
    ('[k], i|item', lambda e, m: (_dflt(m, e) and e.get('k') is not None) or (_pref(m, 'i', e) and e.name == 'item')),
    ('i|item, [k]', lambda e, m: (_dflt(m, e) and e.get('k') is not None) or (_pref(m, 'i', e) and e.name == 'item')),
    (':is(.hit, .other)', lambda e, m: _dflt(m, e) and (_cls(e, 'hit') or _cls(e, 'other'))),
    (':not(.hit)', lambda e, m: _dflt(m, e) and not _cls(e, 'hit')),
    ('.hit, *|*.other', lambda e, m: (_dflt(m, e) and _cls(e, 'hit')) or _cls(e, 'other')),
    ('*|*.other, .hit, |plain', lambda e, m: (_dflt(m, e) and _cls(e, 'hit')) or _cls(e, 'other') or (e.name == 'plain' and _ns(e) == '')),
    (':empty, :root', lambda e, m: _dflt(m, e) and (e.get('id') == 'r' or not e.contents)),
    ('item, thing', lambda e, m: _dflt(m, e) and e.name in ('item', 'thing')),
    ('*|item:not(:required, o|item)', lambda e, m: e.name == 'item' and not _pref(m, 'o', e)),
    # inside a pseudo-class no universal is implied: type-less members of its list are not bound to the default namespace
    ('*|*:not(.hit, .other)', lambda e, m: not _cls(e, 'hit') and not _cls(e, 'other')),
    ('*|*:not(.other, .hit)', lambda e, m: not _cls(e, 'hit') and not _cls(e, 'other')),
    ('*|*:not(#b1, [k], #n1)', lambda e, m: e.get('id') not in ('b1', 'n1') and e.get('k') is None),
    ('*|*:is(.hit, [k], #a2)', lambda e, m: _cls(e, 'hit') or e.get('k') is not None or e.get('id') == 'a2'),
    ('*|*:nth-child(n of .hit, .other)', lambda e, m: _cls(e, 'hit') or _cls(e, 'other')),
    ('*|*:matches(.other, .hit):not([k], #h1)', lambda e, m: (_cls(e, 'hit') or _cls(e, 'other')) and e.get('k') is None and e.get('id') != 'h1'),
    ('*|*:--both', lambda e, m: _cls(e, 'hit') or _cls(e, 'other')),
    ('*|*:has(> .other, > [k])', lambda e, m: e.get('id') in ('r', 'h1')),
]
MIXED_CUSTOM = {':--both': '.hit, .other'}


def mixed_ns_ok(ci: int) -> bool:
    """
    pre: 0 <= ci < len(MIXED_CASES)
    post: _
    """
    ci = concrete(ci)
    with notrace():
        text, pred = MIXED_CASES[ci]
        ok = True
        for m in MIXED_MAPS:
            exp = [e.get('id') for e in MIXED_ELS if pred(e, m)]
            mm = dict(m) if m is not None else None
            c = sv.compile(text, namespaces=mm, custom=MIXED_CUSTOM)
            if mm is not None:
                # what the caller does with the dictionary afterwards does not change what the prefixes were mapped to
                mm.clear()
                mm.update({'i': 'urn:zz', '': 'urn:zz', 'o': 'urn:i', 'html': 'urn:i', 'h': 'urn:o'})
            ok = ok and [e.get('id') for e in c.select(MIXED)] == exp
            ok = ok and [e.get('id') for e in MIXED_ELS if c.match(e)] == exp
            ok = ok and [e.get('id') for e in c.filter(MIXED_ELS)] == exp
    return ret(ok)
