"""C19 — text pseudo-classes see exactly the character data CSS/HTML count as content."""
from __future__ import annotations
import os
import random
from types import SimpleNamespace
from vlib.hsupport import *  # noqa: F401,F403
from vlib.hsupport import bs4, cm, cp, ct, sv, util, ret, part, TIER, concrete, notrace
from vlib import refmodel as rm

SEED = int(os.environ.get('VERIF_SEED', '0') or 0)
WS = ' \t\r\n\f'


def gen_tree(r, xml):
    soup = bs4.BeautifulSoup('', 'xml' if xml else 'html.parser')
    budget = [r.randint(2, 7)]

    def fill(el, depth):
        for _ in range(r.choice([0, 1, 2, 3, 4])):
            k = r.random()
            if k < 0.06 and not xml:
                # text that html.parser / lxml store in NavigableString subclasses (inside script, style, template, rt, rp):
                # it is content like any other text
                kind = r.choice([bs4.element.Script, bs4.element.Stylesheet, bs4.element.TemplateString,
                                 bs4.element.RubyTextString, bs4.element.RubyParenthesisString])
                el.append(kind(r.choice(['a', 'b', 'ab', ' ', 'a b'])))
            elif k < 0.3:
                el.append(bs4.NavigableString(r.choice(['a', 'b', ' ', 'ab', 'ba', '\n', '', 'a b', 'b\n', 'a"', '"a"b', "b'", 'a\\'])))
            elif k < 0.4:
                el.append(bs4.Comment(r.choice(['a', 'ab'])))
            elif k < 0.5:
                el.append(bs4.CData(r.choice(['a', 'b'])))
            elif k < 0.56:
                el.append(bs4.ProcessingInstruction('a'))
            elif k < 0.6:
                el.append(bs4.Declaration('a'))
            elif k < 0.64:
                el.append(bs4.Doctype('a'))
            elif budget[0] > 0 and depth < 3:
                budget[0] -= 1
                c = soup.new_tag(r.choice(['p', 'span', 'iframe', 'p', 'IFRAME' if not xml else 'iframe']))
                el.append(c)
                fill(c, depth + 1)
    root = soup.new_tag('div')
    soup.append(root)
    fill(root, 0)
    return soup


_r = random.Random(1900 + SEED)
NTREES = 60 if TIER == 'quick' else 300
TREES = part([(x, gen_tree(_r, x)) for i in range(NTREES) for x in ((i % 3) == 2,)])
NT = len(TREES)
_r2 = random.Random(1901 + SEED)
NBIG = 400 if TIER == 'quick' else 3000
BIG = part([(x, gen_tree(_r2, x)) for i in range(NBIG) for x in ((i % 3) == 2,)])
NB = len(BIG)


def is_iframe(el, xml):
    return (el.name == 'iframe') if xml else (rm.lower_ascii(el.name) == 'iframe')


def ref_text(el, xml):
    """Concatenation, in document order, of the text nodes among el's descendants; in HTML documents the content of
    an iframe (nested or el itself) is not part of it."""
    if not xml and is_iframe(el, xml):
        return ''
    out = ''
    for n in el.contents:
        if rm.is_element(n):
            if not xml and is_iframe(n, xml):
                continue
            out += ref_text(n, xml)
        elif rm.is_text(n):
            out += str(n)
    return out


def ref_own(el, xml):
    if not xml and is_iframe(el, xml):
        return []
    return [str(n) for n in el.contents if rm.is_text(n)]


def contains_ok(ti: int, t1: str, t2: str, own: bool, two: bool) -> bool:
    """
    pre: 0 <= ti < NT
    pre: len(t1) <= 2 and len(t2) <= 2
    pre: all(c in ALPHA for c in t1) and all(c in ALPHA for c in t2)
    post: _
    """
    # real match_contains with symbolic search strings (stand-in for SelectorContains: .text, .own) on every element
    # of a pre-built tree == reference (any-of-list; substring of the concatenation / of one direct text child)
    xml, soup = TREES[concrete(ti)]
    m = cm.CSSMatch(ct.SelectorList(), soup, None, 0)
    texts = (t1, t2) if two else (t1,)
    spec = SimpleNamespace(text=texts, own=own)
    ok = True
    for el in rm.descendants(soup):
        got = m.match_contains(el, (spec,))
        if own:
            exp = any(any(t in node for node in ref_own(el, xml)) for t in texts)
        else:
            content = ref_text(el, xml)
            exp = any(t in content for t in texts)
        if bool(got) != exp:
            ok = False
    return ret(ok)


ALPHA = 'ab \n'

SEARCH = ['a', 'b', 'ab', 'ba', '', ' ', 'a b', 'aa', 'b\n', 'q"r', "it's", 'x,y', '\\', 'é', 'a"', '"a"', "b'", '"', 'a\\']
FORMS = [(':-soup-contains(%s)', False), (':-soup-contains-own(%s)', True), (':contains(%s)', False),
         ('p:-soup-contains(%s)', False), (':not(:-soup-contains(%s))', None), (':-soup-contains(%s, "zz")', False),
         (':-soup-contains-own("zz", %s)', True), (':-soup-contains-own(%s):-soup-contains(%s)', 'both'),
         (':-soup-contains(%s):-soup-contains-own(%s)', 'both')]


def _quote(s):
    return '"' + s.replace('\\', '\\\\').replace('"', '\\"').replace('\n', '\\a ') + '"'


def contains_api_ok(ti: int) -> bool:
    """
    pre: 0 <= ti < NB
    post: _
    """
    # through the real parser and select(): every search string of the pool (empty, boundary-spanning, with quotes,
    # commas, backslash, escaped newline, non-ASCII) in every form, on every element
    ti = concrete(ti)
    with notrace():
        import warnings
        warnings.simplefilter('ignore')
        xml, soup = BIG[ti]
        ok = True
        for s in SEARCH:
            for form, own in FORMS:
                c = sv.compile(form.replace('%s', _quote(s)))
                sel = set(id(e) for e in c.select(soup))
                for el in rm.descendants(soup):
                    if own == 'both':
                        exp = s in ref_text(el, xml) and any(s in node for node in ref_own(el, xml))
                    elif own is None:
                        exp = s not in ref_text(el, xml)
                    elif own:
                        exp = any(s in node for node in ref_own(el, xml))
                    else:
                        exp = s in ref_text(el, xml)
                    if form.startswith('p:'):
                        exp = exp and el.name == 'p'
                    ok = ok and ((id(el) in sel) == exp)
    return ret(ok)


EMPTY = sv.compile(':empty')
NOT_EMPTY = sv.compile(':not(:empty)')


def empty_ok(ti: int) -> bool:
    """
    pre: 0 <= ti < NB
    post: _
    """
    # :empty <=> no element child and no text child with a non-whitespace character (comments, CDATA, PIs, declarations
    # and doctypes never count)
    ti = concrete(ti)
    with notrace():
        xml, soup = BIG[ti]
        ok = True
        e1 = set(id(e) for e in EMPTY.select(soup))
        e2 = set(id(e) for e in NOT_EMPTY.select(soup))
        for el in rm.descendants(soup):
            exp = True
            for n in el.contents:
                if rm.is_element(n) or (rm.is_text(n) and any(ch not in WS for ch in n)):
                    exp = False
            ok = ok and ((id(el) in e1) == exp) and ((id(el) in e2) == (not exp))
    return ret(ok)


def empty_text_ok(s: str, kind: int) -> bool:
    """
    pre: len(s) <= 3
    pre: 0 <= kind <= 2
    post: _
    """
    # one child whose content is a symbolic string: text counts iff it has a non-whitespace character (all of
    # Unicode: only space, tab, LF, CR, FF are whitespace); a comment / CDATA child never counts
    soup = bs4.BeautifulSoup('', 'html.parser')
    el = soup.new_tag('p')
    soup.append(el)
    el.append([bs4.NavigableString, bs4.Comment, bs4.CData][kind](s))
    exp = True if kind else all(ch in WS for ch in s)
    return ret(bool(EMPTY.match(el)) == exp)
