"""C04 — answers do not depend on query history; matching never mutates the tree."""
from __future__ import annotations
import copy
from vlib.hsupport import *  # noqa: F401,F403
from vlib.hsupport import bs4, cm, cp, ct, sv, util, ret, part, TIER, html_soup, concrete, notrace
from vlib import treegen as tg, selgen

MEMO_TXT = [
    ':lang(en)', ':lang("")', ':lang("*")', ':lang(fr, de)', ':default', ':indeterminate', ':checked', ':dir(ltr)', ':dir(rtl)',
    'span, p:dir(ltr)', ':is(:default, a)', ':not(:indeterminate)', 'form :default', ':root:lang(en)', ':in-range',
    ':placeholder-shown', ':read-only', ':enabled', 'p:lang(de) span', ':has(:checked)', ':nth-child(2 of :lang(en))',
    'input:indeterminate ~ input', ':not(:lang(en))', 'body :lang(en)', ':link', ':required', 'iframe p:lang(en)',
]
MEMO = part([sv.compile(s) for s in MEMO_TXT])
NMEMO = len(MEMO)

DOCNAMES = ['forms_hp', 'forms_h5', 'plain_hp', 'xhtml', 'xml']


def _els(d):
    return [t for t in d.descendants if isinstance(t, bs4.Tag)]


# compact forms document for the symbolic condition (injected attributes are restored)
COMPACT = '''<html><head><meta http-equiv="content-language" content="en"></head><body><form id="f1"><input id="r1" type="radio" name="g"><input id="r2" type="radio" name="g"><input id="s1" type="submit"><button id="b1" type="submit"></button></form><p id="p1">x<span id="sp">y</span></p><iframe id="fr"><html><body><p id="ip">i</p><input id="r5" type="radio" name="g" checked></body></html></iframe><input id="r3" type="radio" name="g"><form id="f2"><input id="r6" type="radio" name="g" checked><input id="s2" type="submit"></form></body></html>'''
FD = bs4.BeautifulSoup(COMPACT, 'html.parser')
F_HTML = FD.find('html')
F_META = FD.find('meta')
F_P1 = tg.by_id(FD, 'p1')
F_R1 = tg.by_id(FD, 'r1')
F_R2 = tg.by_id(FD, 'r2')
F_S1 = tg.by_id(FD, 's1')
F_ELS = _els(FD)


def select_vs_match_ok(si: int, langv: str, metav: str, namev: str, typev: str,
                       has_lang: bool, has_meta: bool, r2_checked: bool, p_lang: bool) -> bool:
    """
    pre: 0 <= si < NMEMO
    pre: len(langv) <= 2 and len(metav) <= 2 and len(namev) <= 1 and len(typev) <= 1
    post: _
    """
    # one select() over the whole document (memo tables shared by all elements of the call) gives, for every element,
    # the answer match() gives for that element alone.
    # Symbolic: <html lang>, <meta content>, a radio button's name, the submit input's type.
    c = MEMO[si]
    with tg.inject([(F_HTML, 'lang', langv if has_lang else None),
                    (F_META, 'content', metav if has_meta else None),
                    (F_META, 'http-equiv', 'content-language' if has_meta else None),
                    (F_P1, 'lang', None if not p_lang else 'en'),
                    (F_R1, 'name', namev), (F_R2, 'checked', '' if r2_checked else None),
                    (F_S1, 'type', 'submit' + typev)]):
        sel = set(id(e) for e in c.select(FD))
        ok = True
        for e in F_ELS:
            if (id(e) in sel) != bool(c.match(e)):
                ok = False
    return ret(ok)


ENTRY = ['select', 'select_one', 'match_each', 'filter', 'closest_each', 'select_sub', 'iselect_partial']
GENERAL = selgen.general_pool()
HSEL = [sv.compile(s, {'x': 'urn:x', 'svg': 'http://www.w3.org/2000/svg'}) for s in
        MEMO_TXT[:12] + ['p', 'div > p', ':root', ':empty', 'li:nth-child(2)', ':has(> p)', '[id]', ':not(p)']]
NH = len(HSEL)


def _do(entry, c, d):
    els = _els(d)
    if entry == 'select':
        c.select(d)
    elif entry == 'select_one':
        c.select_one(d)
    elif entry == 'match_each':
        for e in els:
            c.match(e)
    elif entry == 'filter':
        c.filter(d)
        c.filter(els[::-1])
    elif entry == 'closest_each':
        for e in els[-5:]:
            c.closest(e)
    elif entry == 'select_sub':
        for e in els[:4]:
            c.select(e)
    else:
        it = c.iselect(d)
        next(it, None)


NHIST = len(DOCNAMES) * (len(ENTRY) * NH) ** 3 * NMEMO
_SEED = int(__import__('os').environ.get('VERIF_SEED', '0') or 0)


def history_ok(h: int) -> bool:
    """
    pre: 0 <= h < HLIM
    post: _
    """
    # after any history of three calls the observed selector answers as on a pristine copy, in either order; the
    # document's serialisation, attribute dictionaries and node identities are unchanged.  The history is one index
    # (scrambled by VERIF_SEED) decoded into (document, 3 x (entry point, selector), observed selector).
    h = concrete(h)
    with notrace():
        x = (h * 2654435761 + 97 * _SEED) % NHIST
        di, x = x % len(DOCNAMES), x // len(DOCNAMES)
        oi, x = x % NMEMO, x // NMEMO
        calls = []
        for _ in range(3):
            e, x = x % len(ENTRY), x // len(ENTRY)
            sidx, x = x % NH, x // NH
            calls.append((e, sidx))
        (e0, s0), (e1, s1), (e2, s2) = calls
        d = tg.fresh(DOCNAMES[di])
        pristine = tg.fresh(DOCNAMES[di])
        before = d.decode()
        nodes_before = [id(n) for n in d.descendants]
        attrs_before = [dict(t.attrs) for t in _els(d)]
        obs = MEMO[oi]
        first = [i for i, e in enumerate(_els(pristine)) if obs.match(e)]      # asked one by one, pristine
        for e, s in ((e0, s0), (e1, s1), (e2, s2)):
            _do(ENTRY[e], HSEL[s], d)
        els = _els(d)
        after_select = [i for i, e in enumerate(els) if any(e is x for x in obs.select(d))]
        after_match = [i for i, e in enumerate(els) if obs.match(e)]
        ok = first == after_select == after_match
        ok = ok and [i for i, e in enumerate(_els(pristine)) if any(e is x for x in obs.select(pristine))] == first
        ok = ok and d.decode() == before and [id(n) for n in d.descendants] == nodes_before
        ok = ok and [dict(t.attrs) for t in els] == attrs_before
    return ret(ok)


class _Probe(cm.CSSMatch):
    """Real matcher; records whether namespaces / iframe_restrict differ from their initial values when a top-level
    match() returns."""

    def match(self, el):
        ns0, ir0 = self.namespaces, self.iframe_restrict
        try:
            return super().match(el)
        finally:
            self.leak = getattr(self, 'leak', False) or self.namespaces is not ns0 or self.iframe_restrict != ir0


NSMAP = ct.Namespaces({'x': 'urn:x', 'svg': 'http://www.w3.org/2000/svg'})
ALLSEL = part(GENERAL + MEMO_TXT)
ALLC = [sv.compile(s, {'x': 'urn:x', 'svg': 'http://www.w3.org/2000/svg'}) for s in ALLSEL]


def state_restored_ok(si: int) -> bool:
    """
    pre: 0 <= si < len(ALLC)
    post: _
    """
    # the caller's namespace map and the iframe restriction are back in place whenever match() returns
    si = concrete(si)
    with notrace():
        ok = True
        for name in DOCNAMES:
            d = tg.doc(name)
            c = ALLC[si]
            m = _Probe(c.selectors, d, NSMAP, 0)
            list(m.select())
            for e in _els(d):
                m.match(e)
            m.closest()
            m.filter()
            ok = ok and not getattr(m, 'leak', False) and m.namespaces is NSMAP and m.iframe_restrict is False
    return ret(ok)


HLIM = 250 if TIER == 'quick' else 6000


# ---- documents whose attributes hold the odd values the bs4 API permits; twin forms --------------------------------

ODD_MARKUP = '<div id="r"><p id="a" class="k">x</p><p id="b">y</p><form><input type="submit"><input type="radio" name="g"></form></div>'
ODD_ATTRS = [('a', 'data-ids', [3, 4]), ('a', 't', [b'next', None]), ('b', 'class', ['k', 5]), ('b', 'u', ('x', 1)),
             ('a', 'n', 7), ('b', 'z', None), ('a', 'w', ['a', ['b']])]
ODD_SELECTORS = [sv.compile(s) for s in ('[data-ids="3 4"]', '[t]', '.k', '[u~=x]', 'p[n="7"]', '[z]', '[w]', ':not([t])', '#a', 'p',
                                         ':is(.k, [n])', 'p:has(+ p)', ':default', ':indeterminate')]


def _snap(v):
    if isinstance(v, list):
        return ('list', id(v), [_snap(x) for x in v])
    if isinstance(v, tuple):
        return ('tuple', [_snap(x) for x in v])
    return (type(v).__name__, repr(v))


def odd_attrs_unchanged_ok(si: int, k: int) -> bool:
    """
    pre: 0 <= si < len(ODD_SELECTORS)
    pre: 0 <= k < 4
    post: _
    """
    # attribute values that are lists with non-string items, bytes, None, numbers: after select / match / filter /
    # closest every attrs dictionary still holds the same objects with the same contents
    si, k = concrete(si), concrete(k)
    with notrace():
        d = bs4.BeautifulSoup(ODD_MARKUP, 'html.parser')
        for i, name, val in ODD_ATTRS:
            tg.by_id(d, i).attrs[name] = val
        els = _els(d)
        before = [[(a, _snap(v)) for a, v in t.attrs.items()] for t in els]
        c = ODD_SELECTORS[si]
        if k == 0:
            c.select(d)
        elif k == 1:
            for e in els:
                c.match(e)
        elif k == 2:
            c.filter(els[0])
            c.filter(els)
        else:
            c.closest(els[-1])
            c.select_one(d)
        after = [[(a, _snap(v)) for a, v in t.attrs.items()] for t in els]
    return ret(before == after)


LOOSE_SELECTORS = [sv.compile(s) for s in (
    'p:first-of-type', ':nth-child(1)', ':nth-last-child(1 of p)', ':only-child', ':root', ':root > p', 'p:first-child > b',
    ':last-of-type', ':nth-of-type(2n+1)', ':not(:first-child)', ':is(:only-of-type, div)', 'p', ':has(> b:first-child)',
    ':empty', ':default', ':lang(en)', ':dir(ltr)', ':-soup-contains(x)')]


def _loose():
    d = bs4.BeautifulSoup('<div lang="en"><p class="a"><b>x</b><i></i></p><p>y</p></div>', 'html.parser')
    a = d.div.extract()                       # removed from its document
    b = d.new_tag('p')                        # never inserted
    b.append(d.new_tag('b'))
    x = bs4.BeautifulSoup('<r><e a="1"><f/></e></r>', 'xml').r.e.extract()
    return [a, b, x]


def _shape(el):
    """Everything a query could have changed around a parentless element."""
    out = [el.parent is None, el.next_sibling is None, el.previous_sibling is None, el.next_element is not None or True,
           el.decode()]
    for t in [el] + [t for t in el.descendants if isinstance(t, bs4.Tag)]:
        out.append((id(t), id(t.parent) if t.parent is not None else None, len(t.contents), sorted(t.attrs.items())))
    return out


def loose_unchanged_ok(si: int, k: int) -> bool:
    """
    pre: 0 <= si < len(LOOSE_SELECTORS)
    pre: 0 <= k < 5
    post: _
    """
    # elements without a parent (extracted, never inserted; HTML and XML): a query leaves them parentless and unchanged, and
    # the answers after it are the answers a pristine copy gives
    si, k = concrete(si), concrete(k)
    with notrace():
        used, fresh = _loose(), _loose()
        c = LOOSE_SELECTORS[si]
        ok = True
        for el in used:
            before = _shape(el)
            if k == 0:
                c.match(el)
            elif k == 1:
                c.select(el)
                c.select_one(el)
            elif k == 2:
                c.filter(el)
                c.filter([el] + [t for t in el.descendants if isinstance(t, bs4.Tag)])
            elif k == 3:
                c.closest(el)
                for t in el.descendants:
                    if isinstance(t, bs4.Tag):
                        c.closest(t)
            else:
                list(c.iselect(el, limit=1))
                c.match(el)
            ok = ok and _shape(el) == before
        for el, twin in zip(used, fresh):
            for o in LOOSE_SELECTORS:
                ok = ok and bool(o.match(el)) == bool(o.match(twin)) and len(o.select(el)) == len(o.select(twin))
                ok = ok and (o.closest(el) is el) == (o.closest(twin) is twin)
                cl = o.closest(el)
                ok = ok and (cl is None or cl is el)
    return ret(ok)


TWIN_MARKUP = ('<body><form><input type="radio" name="g"><button type="submit">go</button></form>'
               '<form><input type="radio" name="g"><button type="submit">go</button></form>'
               '<div><form><input type="radio" name="g"><button type="submit">go</button></form></div>'
               '<form><input type="radio" name="g" checked><input type="radio" name="g"><button type="submit">go</button></form>'
               '<input type="radio" name="g"><iframe><html><body><input type="radio" name="g" checked><p lang="fr">t</p></body></html></iframe>'
               '<section class="m"><ul><li>item</li></ul></section><section class="b"><ul><li>item</li></ul></section></body>')
TWIN_SELECTORS = [sv.compile(s) for s in (':scope', ':not(:scope)', 'li:scope, form:scope', ':default', ':indeterminate', ':lang(fr)', ':not(:indeterminate)', 'input:indeterminate + *', 'form :default', ':checked, :default', '.m li', '.b li',
                                          'div button', ':not(.m) li', 'section:has(li)', 'li:first-child', 'form > *',
                                          ':is(.b, div) :is(li, button)', 'ul > li:only-child')]


def twins_ok(si: int, parser: int) -> bool:
    """
    pre: 0 <= si < len(TWIN_SELECTORS)
    pre: 0 <= parser <= 2
    post: _
    """
    # documents containing distinct nodes with identical markup (bs4 Tags compare and hash structurally): one select()
    # over the document agrees with match() on every element alone, and with select() from each sub-tree
    si, parser = concrete(si), concrete(parser)
    with notrace():
        d = bs4.BeautifulSoup(TWIN_MARKUP, ('html.parser', 'lxml', 'html5lib')[parser])
        c = TWIN_SELECTORS[si]
        els = _els(d)
        sel = [id(e) for e in c.select(d)]
        scoped = ':scope' in c.pattern
        alone = [id(e) for e in els if c.match(e)]
        ok = scoped or sel == alone
        # filter(iterable) asks every item on its own, whatever its neighbours in the iterable are
        ok = ok and [id(e) for e in c.filter(els)] == alone and [id(e) for e in c.filter(els[::-1])] == alone[::-1]
        for sub in els:
            if sub.name in ('form', 'section', 'div', 'body'):
                inner = [id(e) for e in c.select(sub)]
                ok = ok and (scoped or inner == [id(e) for e in _els(sub) if id(e) in sel])
    return ret(ok)
