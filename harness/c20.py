"""C20 — diagnostics point at the right place and always terminate."""
from __future__ import annotations
import contextlib
import io
from vlib.hsupport import *  # noqa: F401,F403
from vlib.hsupport import bs4, cm, cp, ct, sv, util, ret, part, TIER, html_soup, concrete, notrace
from vlib import selgen, treegen as tg
from soupsieve import pretty as pretty_mod

ALPHA = 'ab\n\r'


def ref_lines(pattern: str):
    """[(start, text, end_including_break)] for \\n, \\r\\n and \\r line breaks."""
    out = []
    i = 0
    start = 0
    n = len(pattern)
    while i < n:
        c = pattern[i]
        if c == '\r' and i + 1 < n and pattern[i + 1] == '\n':
            out.append((start, pattern[start:i], i + 2))
            i += 2
            start = i
        elif c == '\n' or c == '\r':
            out.append((start, pattern[start:i], i + 1))
            i += 1
            start = i
        else:
            i += 1
    out.append((start, pattern[start:], n + 1))   # last line owns the end-of-pattern offset
    return out


def ref_context(pattern: str, index: int):
    lines = ref_lines(pattern)
    multi = len(lines) > 1
    text = []
    line_no = col = 0
    for k, (start, txt, end) in enumerate(lines):
        here = start <= index < end
        if multi:
            text.append(('--> ' if here else '    ') + txt)
        else:
            text.append(txt)
        if here:
            line_no = k + 1
            col = index - start + 1
            width = 4 if multi else 0
            text.append(' ' * (width + min(col, len(txt) + 1) - 1) + '^')
    return '\n'.join(text), line_no, col


def context_ok(p: str, index: int) -> bool:
    """
    pre: len(p) <= PLEN
    pre: all(c in ALPHA for c in p)
    pre: 0 <= index <= len(p)
    post: _
    """
    ctx, line, col = util.get_pattern_context(p, index)
    rctx, rline, rcol = ref_context(p, index)
    return ret(line == rline and col == rcol and ctx == rctx)


PLEN = 4 if TIER == 'quick' else 7


def error_attrs_ok(p: str, index: int) -> bool:
    """
    pre: len(p) <= 3
    pre: all(c in ALPHA for c in p)
    pre: 0 <= index <= len(p)
    post: _
    """
    # SelectorSyntaxError(msg, pattern, index) carries exactly the context/line/col of the reference
    e = util.SelectorSyntaxError('m', p, index)
    rctx, rline, rcol = ref_context(p, index)
    return ret(e.line == rline and e.col == rcol and e.context == rctx and rctx in str(e))


# ---- offsets the real parser passes -----------------------------------------------------------------

BAD = [
    'a >', 'a > > b', ':is(a', ':not(', 'a,', ', a', 'a[', 'a[b=', 'a[b="c]', '.', '#', 'a..b', ':nth-child(2n+)',
    ':nth-child(x)', ':lang(', ':unknown', ':is(a))', 'a)', '$', 'a $', 'div p)', ':has(> )', ':has()', 'a +',
    ':--undefined', ':not()', 'a b !', '[a=b] [', ':dir(up)', ':contains(', '> a', 'a::before x', ':nth-child(2 of', 'a /* x',
]
PREFIX = ['', '\n', 'b,\n', 'b,\r\n', '\r', ' \n ', 'b\n,\n']
SUFFIX = ['', '\n', '\r\n', '\n ']
ERRS = part([(pre, bad, suf) for pre in PREFIX for bad in BAD for suf in SUFFIX])
NERR = len(ERRS)


def parser_offsets_ok(i: int) -> bool:
    """
    pre: 0 <= i < NERR
    post: _
    """
    # every SelectorSyntaxError raised by the real parser for pattern P carries line/col/context that the reference
    # derives from SOME offset 0..len(P) of P, and the caret line is present
    i = concrete(i)
    with notrace():
        pre, bad, suf = ERRS[i]
        pat = pre + bad + suf
        try:
            sv.compile(pat)
            return ret(True)         # (some combinations are valid selectors: nothing to check)
        except NotImplementedError:
            return ret(True)
        except util.SelectorSyntaxError as e:
            if e.line is None:
                return ret(False)
            ok = False
            for idx in range(len(pat) + 1):
                if ref_context(pat, idx) == (e.context, e.line, e.col):
                    ok = True
            return ret(ok)


# ---- DEBUG changes no result -------------------------------------------------------------------------

POOL = part(selgen.general_pool() + ['div', 'p', 'DIV', 'input', 'a-b', '_x', 'x|p', '*|*', 'svg|circle', 'h1, h2', 'p.a', '#i1'])
NPOOL = len(POOL)
DOC = tg.doc('forms_hp')
DOC2 = tg.doc('plain_hp')
NSMAP = {'x': 'urn:x', 'svg': 'http://www.w3.org/2000/svg'}
NSMAP_D = {'': 'http://www.w3.org/1999/xhtml', 'x': 'urn:x', 'svg': 'http://www.w3.org/2000/svg'}
XDOC = tg.doc('xml')
H5DOC = tg.doc('plain_h5')


WRAPS = [('', ''), ('', '\n'), ('\n', ''), (' ', ' '), ('', '\r\n'), ('', '/**/'), ('\t', ' /* c */\n'), ('\n\n', '\f')]


def debug_flag_ok(i: int) -> bool:
    """
    pre: 0 <= i < NPOOL
    post: _
    """
    # with and without DEBUG: same structure, same hash, same selection -- for the selector as written and with
    # insignificant whitespace / comments / line breaks around it (which also must not change the structure)
    i = concrete(i)
    with notrace():
        ok = True
        base = None
        for pre, post in WRAPS:
            s = pre + POOL[i] + post
            sv.purge()
            a = sv.compile(s, NSMAP)
            buf = io.StringIO()
            with contextlib.redirect_stdout(buf):
                b = sv.compile(s, NSMAP, flags=sv.DEBUG)
                r2 = [id(e) for d in (DOC, DOC2) for e in b.select(d)]
            r1 = [id(e) for d in (DOC, DOC2) for e in a.select(d)]
            ok = ok and a.selectors == b.selectors and r1 == r2 and hash(a.selectors) == hash(b.selectors)
            if (pre, post) == ('', ''):
                # the same under a map with a default namespace, on namespace-aware trees
                a2 = sv.compile(s, NSMAP_D)
                with contextlib.redirect_stdout(buf):
                    b2 = sv.compile(s, NSMAP_D, flags=sv.DEBUG)
                    r4 = [id(e) for d in (XDOC, H5DOC) for e in b2.select(d)]
                r3 = [id(e) for d in (XDOC, H5DOC) for e in a2.select(d)]
                ok = ok and a2.selectors == b2.selectors and r3 == r4
            if base is None:
                base = (a.selectors, r1)
            ok = ok and a.selectors == base[0] and r1 == base[1]
    return ret(ok)


# ---- pretty printer ----------------------------------------------------------------------------------

class LoopBound(Exception):
    pass


class _Counting:
    def __init__(self, pat, box):
        self.pat = pat
        self.box = box

    def match(self, s, i):
        self.box[0] += 1
        if self.box[0] > self.box[1]:
            raise LoopBound()
        return self.pat.match(s, i)


def bounded_pretty(obj, length):
    """pretty() with its token table wrapped so that more than 16*(length+2) token probes abort."""
    box = [0, 16 * (length + 2)]
    saved = pretty_mod.TOKENS
    pretty_mod.TOKENS = {k: _Counting(v, box) for k, v in saved.items()}
    try:
        return pretty_mod.pretty(obj)
    finally:
        pretty_mod.TOKENS = saved


def _strip(s: str) -> str:
    return ''.join(c for c in s if c not in ' \n\t\r\f\v')


PRETTY_SELECTORS = part(selgen.general_pool() + [
    '[a=b]', ':nth-child(-n+3)', ':nth-child(-2n-1 of .a)', '[a="x,y" i]', '[a="(\'"]', '[type="a b"]', '[a^="]"]',
    'a:not([b$="}{"], :is(c, d))', ':-soup-contains("a, b", "c\'d")', '[a="\\\\"]', 'x|a[x|b]', ':lang("de-*", en)',
    '[a="\\a "]', ':-soup-contains("  ")', '.\\31 23', '#\\-a',
    # values long enough for CPython to truncate the repr of the compiled pattern (200 characters)
    'img[src="' + 'https://example.org/a-b/c.d?e=f&g=h+i/' * 5 + '"]', '[a^="' + '(x|y)*' * 40 + '"]', '[a~="' + "q'" * 120 + '"]',
    '[a="' + '\\\\' * 150 + '"], [b="c"]', 'p:is([a*="' + '.+' * 130 + '" i], b) > c',
])
NPS = len(PRETTY_SELECTORS)
CUSTOM = {':--h': 'h1, h2', ':--p': 'p:--h'}


def pretty_ok(i: int, withns: bool) -> bool:
    """
    pre: 0 <= i < NPS
    post: _
    """
    i, withns = concrete(i), concrete(withns)
    with notrace():
        c = sv.compile(PRETTY_SELECTORS[i], NSMAP if withns else None)
        r = repr(c.selectors)
        try:
            out = bounded_pretty(c.selectors, len(r))
        except LoopBound:
            return ret(False)
        ok = _strip(out) == _strip(r)
    return ret(ok)


REPR_ALPHA = "aS_(=',-.)1 |\\\"[:{"


def pretty_terminates_ok(s: str) -> bool:
    """
    pre: len(s) <= RLEN
    pre: all(c in REPR_ALPHA for c in s)
    post: _
    """
    # pretty() makes progress on every string over the characters a repr can contain (it may reject, not loop)
    try:
        bounded_pretty(s, len(s))
    except LoopBound:
        return ret(False)
    except Exception:
        pass
    return ret(True)


RLEN = 3 if TIER == 'quick' else 5


def debug_errors_ok(i: int) -> bool:
    """
    pre: 0 <= i < NERR
    post: _
    """
    # the DEBUG flag changes no result: a pattern that is rejected is rejected with the same exception type, message,
    # line, column and context with and without it; a pattern that compiles gives the same structure
    i = concrete(i)
    with notrace():
        pre, bad, suf = ERRS[i]
        pat = pre + bad + suf

        def attempt(flags):
            sv.purge()
            buf = io.StringIO()
            with contextlib.redirect_stdout(buf):
                try:
                    return ('ok', repr(sv.compile(pat, flags=flags).selectors))
                except util.SelectorSyntaxError as e:
                    return ('sse', str(e), e.line, e.col, e.context)
                except NotImplementedError as e:
                    return ('nie', str(e))
        return ret(attempt(0) == attempt(sv.DEBUG))


# Bounded enumeration companion of context_ok over a wider alphabet: only \n, \r\n and \r end a line; \f, \v, the C0/C1
# separators and U+2028/U+2029 are ordinary characters of the line.
ENUM_ALPHA = ['a', '\n', '\r', '\f', '\v', '\x1c', '\x85', ' ', ' ', ' ']
ENUM_PATTERNS = part([''.join(t) for n in range(0, 5) for t in __import__('itertools').product(ENUM_ALPHA, repeat=n)])
ENUM_PB = 64


def context_enum_ok(bi: int) -> bool:
    """
    pre: 0 <= bi * ENUM_PB < len(ENUM_PATTERNS)
    post: _
    """
    bi = concrete(bi)
    with notrace():
        for p in ENUM_PATTERNS[bi * ENUM_PB:(bi + 1) * ENUM_PB]:
            for index in range(len(p) + 1):
                if tuple(util.get_pattern_context(p, index)) != tuple(ref_context(p, index)):
                    return ret(False)
                e = util.SelectorSyntaxError('m', p, index)
                if (e.context, e.line, e.col) != tuple(ref_context(p, index)):
                    return ret(False)
    return ret(True)
