"""C13 — :lang() is RFC 4647 extended filtering over the inherited language."""
from __future__ import annotations
import itertools
from vlib.hsupport import *  # noqa: F401,F403
from vlib.hsupport import bs4, cm, cp, ct, sv, ret, part, TIER, html_soup, concrete, notrace

# ---------------------------------------------------------------------------------------------
# reference: RFC 4647 section 3.3.2 (extended filtering), plus the two CSS special cases


def _lower(s: str) -> str:
    out = ''
    for c in s:
        o = ord(c)
        out += chr(o + 32) if 65 <= o <= 90 else c
    return out


def ref_filter(rng: str, tag: str) -> bool:
    if rng == '':
        return tag == ''          # the empty range matches only an explicitly empty language
    if tag == '':
        return False              # nothing else (incl. '*') matches the empty language
    r = _lower(rng).split('-')
    t = _lower(tag).split('-')
    if r[0] != '*' and r[0] != t[0]:
        return False
    ri, ti = 1, 1
    while ri < len(r):
        if r[ri] == '*':
            ri += 1
            continue
        if ti >= len(t):
            return False
        if t[ti] == r[ri]:
            ri += 1
            ti += 1
            continue
        if len(t[ti]) == 1:
            return False          # implicit wildcards do not skip singletons
        ti += 1
    return True


ALNUM = 'ab1A'


def wf_tag(s: str) -> bool:
    """Well-formed language tag shape: alphanumeric subtags of 1..8 characters joined by single hyphens."""
    if s == '':
        return True
    parts = s.split('-')
    return all(len(p) >= 1 and all(c in ALNUM for c in p) for p in parts)


def wf_range(s: str) -> bool:
    if s == '':
        return True
    parts = s.split('-')
    return all(p == '*' or (len(p) >= 1 and all(c in ALNUM for c in p)) for p in parts)


MATCHER = cm.CSSMatch(ct.SelectorList(), html_soup(), None, 0)


def _piece(p: str) -> bool:
    return 1 <= len(p) <= PL and all(c in ALNUM for c in p)


def _join(pieces) -> str:
    out = ''
    for i, p in enumerate(pieces):
        out = p if i == 0 else out + '-' + p
    return out


def filter_ok(nr: int, nt: int, w0: bool, w1: bool, w2: bool, r0: str, r1: str, r2: str,
              t0: str, t1: str, t2: str, t3: str) -> bool:
    """
    pre: 0 <= nr <= 3 and 0 <= nt <= 4
    pre: _piece(r0) and _piece(r1) and _piece(r2) and _piece(t0) and _piece(t1) and _piece(t2) and _piece(t3)
    post: _
    """
    # range = up to 3 subtags (each "*" or symbolic alphanumerics), tag = up to 4 symbolic subtags; well-formed by
    # construction, content chosen by the solver
    rng = _join([('*' if w else r) for w, r in ((w0, r0), (w1, r1), (w2, r2))][:nr])
    tag = _join([t0, t1, t2, t3][:nt])
    got = MATCHER.extended_language_filter(rng, tag)
    return ret(bool(got) == ref_filter(rng, tag))


PL = 2 if TIER == 'quick' else 3

# ---------------------------------------------------------------------------------------------
# which language does an element have?  (ancestor walk, xml:lang, <meta> pragma, iframe boundary)

VALS = [None, 'en', 'fr', '', 'EN-us']      # None = attribute absent


def _mk(soup, name, parent, ns=None, prefix=None):
    t = soup.new_tag(name, namespace=ns, nsprefix=prefix) if ns else soup.new_tag(name)
    parent.append(t)
    return t


XHTML_NS = 'http://www.w3.org/1999/xhtml'
XML_NS = 'http://www.w3.org/XML/1998/namespace'


SVG_NS = 'http://www.w3.org/2000/svg'
# namespace of each slot for the mixed kinds: 3 = XML root outside XHTML with embedded XHTML elements,
# 4 = XHTML document with foreign (SVG-namespace) elements on the ancestor chain
MIXED = {
    3: {'html': None, 'head': None, 'meta': None, 'body': XHTML_NS, 'div': None, 'p': XHTML_NS, 'iframe': None,
        'ihtml': XHTML_NS, 'ibody': None, 'ip': XHTML_NS},
    4: {'html': XHTML_NS, 'head': XHTML_NS, 'meta': XHTML_NS, 'body': XHTML_NS, 'div': SVG_NS, 'p': XHTML_NS,
        'iframe': SVG_NS, 'ihtml': SVG_NS, 'ibody': XHTML_NS, 'ip': SVG_NS},
}


def build_doc(kind):
    """kind 0 HTML (html.parser builder), 1 XHTML (xml builder, html namespace), 2 plain XML, 3 / 4 mixed namespaces.
    Returns soup and the slots html, body, div, p, iframe-inner html, inner p, meta."""
    if kind == 0:
        soup = bs4.BeautifulSoup('', 'html.parser')
    else:
        soup = bs4.BeautifulSoup('', 'xml')

    def ns(slot):
        if kind in MIXED:
            return MIXED[kind][slot]
        return XHTML_NS if kind == 1 else None
    html = _mk(soup, 'html' if kind in (0, 1, 4) else 'root', soup, ns('html'))
    head = _mk(soup, 'head', html, ns('head'))
    meta = _mk(soup, 'meta', head, ns('meta'))
    body = _mk(soup, 'body', html, ns('body'))
    div = _mk(soup, 'div', body, ns('div'))
    p = _mk(soup, 'p', div, ns('p'))
    p.append(bs4.NavigableString('x'))
    iframe = _mk(soup, 'iframe' if kind != 4 else 'g', body, ns('iframe'))
    ihtml = _mk(soup, 'html' if kind != 4 else 'g', iframe, ns('ihtml'))
    ibody = _mk(soup, 'body', ihtml, ns('ibody'))
    ip = _mk(soup, 'p', ibody, ns('ip'))
    return soup, dict(html=html, head=head, meta=meta, body=body, div=div, p=p, iframe=iframe, ihtml=ihtml,
                      ibody=ibody, ip=ip)


XML_LANG = bs4.element.NamespacedAttribute('xml', 'lang', XML_NS)


def lang_attr_name(kind, slot='html'):
    """The attribute that carries the language for the element in `slot`: `lang` for elements in the XHTML namespace
    (and for everything in plain HTML), xml:lang for other elements of namespace-aware trees."""
    if kind == 0:
        return 'lang'
    if kind == 1:
        return 'lang'
    if kind == 2:
        return XML_LANG
    return 'lang' if MIXED[kind][slot] == XHTML_NS else XML_LANG


def decoy_attr_name(kind, slot):
    """The other spelling, which must be ignored on that element."""
    return XML_LANG if lang_attr_name(kind, slot) == 'lang' else 'lang'


def ref_language(kind, slots, el, vals, meta_val):
    """Reference: nearest attribute on self/ancestor inside the same document; else <meta> pragma (HTML/XHTML,
    outer document only in this skeleton); else None (unknown)."""
    chain_outer = ['html', 'body', 'div', 'p']
    chain_inner = ['ihtml', 'ibody', 'ip']
    name = [k for k, v in slots.items() if v is el][0]
    if name in chain_inner and kind in (0, 1):
        chain = chain_inner[:chain_inner.index(name) + 1]
        inner = True
    elif name in chain_inner:
        # plain XML has no iframe semantics: the ancestor chain continues through it
        chain = ['html', 'body', 'iframe'] + chain_inner[:chain_inner.index(name) + 1]
        inner = False
    elif name in chain_outer:
        chain = chain_outer[:chain_outer.index(name) + 1]
        inner = False
    elif name == 'iframe':
        chain = ['html', 'body', 'iframe']
        inner = False
    else:
        chain = ['html', name] if name != 'html' else ['html']
        inner = False
    for k in reversed(chain):
        v = vals.get(k)
        if v is not None:
            return v
    if kind in (0, 1) and not inner and meta_val:
        return meta_val
    return None


SELS = [(':lang(en)', 'en'), (':lang("")', ''), (':lang("*")', '*'), (':lang(fr, "en-*")', None)]
CSEL = [sv.compile(s) for s, _ in SELS]
# XHTML + <meta> pragma is outside the claim: on this tree (and upstream) the pragma is only consulted for non-XML
# documents when a document object is present, and the property text does not settle XHTML.
import random as _random
_ALLCOMBOS = [c for c in itertools.product(range(5), range(len(VALS)), range(len(VALS)), range(len(VALS)),
                                            range(len(VALS)), (None, 'fr', ''))
               if not (c[0] in (1, 3, 4) and c[5] is not None)]
_random.Random(13 + int(__import__('os').environ.get('VERIF_SEED', '0') or 0)).shuffle(_ALLCOMBOS)
COMBOS = part(_ALLCOMBOS)
NCOMBO = len(COMBOS)


def _inherit(ci: int, ipv: int) -> bool:
    # lang / xml:lang values (absent, en, fr, explicitly empty, EN-us) on html, body, div, p and the iframe's inner
    # <p>; <meta> pragma absent / fr / empty; HTML, XHTML, XML; every element asked through select() and match()
    if True:
        kind, vh, vb, vd, vp, meta_val = COMBOS[ci]
        soup, slots = build_doc(kind)
        vals = {'html': VALS[vh], 'body': VALS[vb], 'div': VALS[vd], 'p': VALS[vp], 'ip': VALS[ipv]}
        for k, v in vals.items():
            if v is not None:
                slots[k].attrs[lang_attr_name(kind, k)] = v
            if kind in MIXED and (ci + len(k)) % 2:
                # the spelling that does not apply to this element carries a decoy value
                slots[k].attrs[decoy_attr_name(kind, k)] = 'zz'
        if meta_val is not None:
            # attribute order varies (parsers preserve source order): content before or after http-equiv
            if (ci + ipv) % 2:
                slots['meta'].attrs['content'] = meta_val
                slots['meta'].attrs['http-equiv'] = 'Content-Language'
            else:
                slots['meta'].attrs['http-equiv'] = 'Content-Language'
                slots['meta'].attrs['content'] = meta_val
            if ci % 3 == 0:
                slots['meta'].attrs['name'] = 'x'
        ok = True
        for (stext, _), c in zip(SELS, CSEL):
            selected = set(id(e) for e in c.select(soup))
            for name, el in slots.items():
                lang = ref_language(kind, slots, el, vals, meta_val)
                if lang is None:
                    exp = False
                elif stext == ':lang(fr, "en-*")':
                    exp = ref_filter('fr', lang) or ref_filter('en-*', lang)
                else:
                    exp = ref_filter(SELS[CSEL.index(c)][1], lang)
                if (id(el) in selected) != exp or bool(c.match(el)) != exp:
                    ok = False
    return ok



IBLOCK = 4


def inherit_ok(bi: int) -> bool:
    """
    pre: 0 <= bi * IBLOCK < NCOMBO
    post: _
    """
    # one block of 4 combinations x 5 values of the inner paragraph per path (bounded enumeration by symbolic block index)
    bi = concrete(bi)
    ok = True
    with notrace():
        for ci in range(bi * IBLOCK, min(NCOMBO, (bi + 1) * IBLOCK)):
            for ipv in range(len(VALS)):
                ok = ok and _inherit(ci, ipv)
    return ret(ok)


def range_list_ok(w1: bool, w2: bool, a: str, b: str, c: str, t0: str, t1: str, nt: int) -> bool:
    """
    pre: _piece(a) and _piece(b) and _piece(c) and _piece(t0) and _piece(t1)
    pre: 0 <= nt <= 2
    post: _
    """
    # real match_lang with the range list (a-<b|*>, <c|*>) on <p lang=tag>: matches iff some range matches
    # (the IR's SelectorLang is replaced by a plain list so that symbolic strings are not hashed)
    r1 = a + '-' + ('*' if w1 else b)
    r2 = '*' if w2 else c
    tag = _join([t0, t1][:nt])
    soup = html_soup()
    p = soup.new_tag('p')
    soup.append(p)
    p.attrs['lang'] = tag
    m = cm.CSSMatch(ct.SelectorList(), soup, None, 0)
    got = m.match_lang(p, ([r1, r2],))
    return ret(bool(got) == (ref_filter(r1, tag) or ref_filter(r2, tag)))


# Bounded enumeration companion of filter_ok (which is a time-boxed search over symbolic subtag contents): every range of
# 1..3 and every tag of 1..4 subtags over a small alphabet that contains singletons, the wildcard and both cases.
ENUM_SUB = ['de', 'u', 'co', 'x', 'DE', 'a1']
ENUM_RANGES = part([_join(p) for n in (1, 2, 3) for p in itertools.product(ENUM_SUB + ['*'], repeat=n)] + [''])
ENUM_TAGS = [_join(p) for n in (1, 2, 3, 4) for p in itertools.product(ENUM_SUB[:5], repeat=n)] + ['']
ENUM_BLOCK = 8


def filter_enum_ok(bi: int) -> bool:
    """
    pre: 0 <= bi * ENUM_BLOCK < len(ENUM_RANGES)
    post: _
    """
    bi = concrete(bi)
    with notrace():
        for rng in ENUM_RANGES[bi * ENUM_BLOCK:(bi + 1) * ENUM_BLOCK]:
            for tag in ENUM_TAGS:
                if bool(MATCHER.extended_language_filter(rng, tag)) != ref_filter(rng, tag):
                    return ret(False)
    return ret(True)
