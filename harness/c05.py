"""C05 — selector lists and logical pseudo-classes form a Boolean algebra (metamorphic; no external oracle)."""
from __future__ import annotations
import os
from vlib.hsupport import *  # noqa: F401,F403
from vlib.hsupport import bs4, cm, cp, ct, sv, util, ret, part, TIER, html_soup, concrete, notrace, PART, NPARTS
from vlib import treegen as tg, selgen

SEED = int(os.environ.get('VERIF_SEED', '0') or 0)
IFRAME_DOC = '''<html><body><div id="o"><p id="op" dir="rtl">a</p><iframe id="fr"><html><body><div id="i"><p id="ip">b</p><x id="ix" dir="ltr">c</x></div></body></html></iframe><x id="ox"></x></div><span id="s">d</span><custom-el id="ce"></custom-el></body></html>'''
SVG_DOC = '''<html xmlns="http://www.w3.org/1999/xhtml"><body><p id="p" dir="ltr" class="a b">t</p><span id="sp" class="b">u</span><svg xmlns="http://www.w3.org/2000/svg" id="svg" class="a"><circle id="c1" class="a"/><a id="sa" href="#" class="b"/><foreignObject id="fo"><linearGradient id="lg"/></foreignObject></svg><a id="ha" href="#">l</a><form><input id="in" type="checkbox" checked=""/><input id="in2" type="text" disabled=""/><input id="s1" type="submit"/></form></body></html>'''
DOCS = [tg.doc(n) for n in ('forms_hp', 'forms_h5', 'plain_hp', 'xhtml', 'xml', 'multiroot_hp')]
DOCS.append(bs4.BeautifulSoup(IFRAME_DOC, 'html.parser'))
DOCS.append(bs4.BeautifulSoup(SVG_DOC, 'xml'))
DOCS.append(bs4.BeautifulSoup(SVG_DOC, 'html5lib'))
DOCS.append(bs4.BeautifulSoup('<root><span id="a"/><p id="b" dir="ltr"/><x-y id="c"/></root>', 'xml'))

NSMAPS = [None, {'x': 'urn:x', 'svg': 'http://www.w3.org/2000/svg', 'html': 'http://www.w3.org/1999/xhtml'},
          {'': 'http://www.w3.org/1999/xhtml', 'svg': 'http://www.w3.org/2000/svg'},
          {'': 'http://www.w3.org/2000/svg', 'html': 'http://www.w3.org/1999/xhtml'}]
CUSTOM = {':--z': 'p, span', ':--d': ':dir(ltr)'}

ALTS = selgen.general_pool() + [
    'p:dir(ltr)', 'x:dir(ltr)', 'span', 'svg|circle', 'svg|*', 'html|p', '#o p', 'div p', ':--z', ':--d', 'p:defined',
    ':defined', 'x-y', '*|circle', 'input:checked', 'a:link', 'svg|a', 'p:lang(en)', ':root', 'div > p:dir(rtl)',
    '#i x:dir(ltr)', 'iframe p', ':not(p)', ':is(span, p:dir(ltr))', 'li:nth-child(2)', ':has(> p)', 'p:empty',
    ':root:not(.a)', ':empty:not(p)', ':scope:not(.b)', ':defined:not(.a)', ':dir(ltr):not(.a)', '[id!=x]:empty', ':not(:not(p))',
    ':not(:empty:not(.a))', 'foreignObject', 'svg|foreignObject', 'linearGradient', 'p, foreignObject', 'a:hover', ':is(a:hover)',
    ':is(p, :focus)', ':where(:target, span)', ':not(:is(:hover))', 'p:is()', ':is(, p)', ':where()',
]
ALTS = [a for i, a in enumerate(ALTS) if a not in ALTS[:i]]
# `&`/':scope' at top level depend on the call target only, which is the same on both sides of every law: keep them
COMPOUNDS = ['*', 'p', 'span', '.a', '[id]', 'svg|*', 'input', ':checked', ':dir(ltr)', ':defined', ':first-child', 'x']
NA = len(ALTS)
NPAIR = NA * NA
# pairs that are always examined: an HTML-only / state pseudo-class next to an alternative that depends on the caller's
# namespace map, on crossing an iframe, or on a custom alias (both orders)
HTML_ONLY = [':any-link', ':checked', ':default', ':defined', ':dir(ltr)', ':dir(rtl)', ':disabled', ':enabled', ':in-range',
             ':indeterminate', ':link', ':optional', ':out-of-range', ':placeholder-shown', ':read-only', ':read-write',
             ':required']
SENSITIVE = ['svg|circle', 'svg|*', 'html|p', '#o p', 'div p', 'iframe p', 'x', 'span', '*|circle', 'svg|a', ':--z', '.a',
             '.b', '[id]']
NO_MATCH = [':active', ':current', ':focus', ':focus-visible', ':focus-within', ':future', ':host', ':hover', ':local-link',
            ':past', ':paused', ':playing', ':target', ':target-within', ':user-invalid', ':visited', ':current(p)', ':host(p)',
            ':host-context(p)', 'a:hover', 'p:focus']
PLAIN_ALTS = ['p', '.a', '*', 'span']
FOREIGN = ['foreignObject', 'linearGradient', 'svg|foreignObject', 'p, foreignObject', 'circle', 'svg|circle, linearGradient']
# the nested lists the library's own HTML-only definitions are built from, written by the user, next to those pseudo-classes
INNER = ['*|*:is(a, area)', ':is(a, area)', '*|*:is(input, select, textarea)', '*|*:is(button, input)', ':is(form, fieldset)',
         ':is(input, button, select, textarea, fieldset, optgroup, option)', ':not(:is(a, area))', '*|*:is(legend, optgroup)']
INNER_B = [':any-link', ':link', ':required', ':optional', ':default', ':disabled', ':enabled', ':checked', ':read-write']
FOCUS = [(a, b) for a in INNER for b in INNER_B] + [(b, a) for a in INNER for b in INNER_B] + \
    [(a, b) for a in HTML_ONLY for b in SENSITIVE] + [(b, a) for a in HTML_ONLY for b in SENSITIVE] + \
    [(a, b) for a in PLAIN_ALTS for b in NO_MATCH] + [(b, a) for a in PLAIN_ALTS for b in NO_MATCH] + \
    [(a, b) for a in FOREIGN for b in PLAIN_ALTS] + [(b, a) for a in FOREIGN for b in PLAIN_ALTS]
NFOCUS = len(FOCUS)


def _sel(text, ns):
    try:
        return sv.compile(text, ns, custom=CUSTOM)
    except Exception:  # noqa: BLE001
        return None


def _ids(c, d):
    return [id(e) for e in c.select(d)]


def laws_ok(pi: int) -> bool:
    """
    pre: 0 <= pi < PLIM
    post: _
    """
    # for the pair (A, B) decoded from one scrambled index and every document of the pool:
    #   'A, B' = A u B;  ':is(A, B)' = ':is(A)' u ':is(B)'  (= 'A, B' without a default namespace);
    #   ':not(A)' = '*' \\ ':is(A)';  ':not(A, B)' = '*' \\ ':is(A, B)';  :where / :matches == :is;
    #   A is a subset of 'A, B' and of 'B, A';  'X:is(A)' = X n '*|*:is(A)' for compound X (the bare ':is(A)' carries an implied universal that a default
    #   namespace restricts)
    pi = concrete(pi)
    with notrace():
        ok = True
        for ni in range(len(NSMAPS)):
            ok = ok and _laws(pi, ni)
    return ret(ok)


def _laws(pi, ni):
    if True:
        g = pi * NPARTS + PART
        x = (g * 2654435761 + 131 * SEED) % NPAIR
        if g < NFOCUS:
            A, B = FOCUS[g]
        else:
            A, B = ALTS[x % NA], ALTS[x // NA]
        ns = NSMAPS[ni]
        X = COMPOUNDS[x % len(COMPOUNDS)]
        texts = dict(a=A, b=B, ab=f'{A}, {B}', ba=f'{B}, {A}', isab=f':is({A}, {B})', isa=f':is({A})', isb=f':is({B})',
                     nota=f':not({A})', notab=f':not({A}, {B})', wab=f':where({A}, {B})', mab=f':matches({A}, {B})',
                     star='*', x=X, xisa=f'{X}:is({A})', anyisa=f'*|*:is({A})', any='*|*', anynotab=f'*|*:not({A}, {B})',
                     anyisab=f'*|*:is({A}, {B})', anymab=f'*|*:matches({A}, {B})', anywab=f'*|*:where({A}, {B})',
                     anynota=f'*|*:not({A})', notesc=f':n\\6f t({A})', isesc=f':\\49s({A}, {B})', hasesc=f':h\\61s(> {A})', has=f':has(> {A})')
        c = {k: _sel(t, ns) for k, t in texts.items()}
        if any(v is None for v in c.values()):
            return False
        ok = True
        for d in DOCS:
            r = {k: _ids(v, d) for k, v in c.items()}
            order = {i: n for n, i in enumerate(_ids(c['star'], d) if ns and '' in ns else [id(e) for e in tg.elements(d)])}
            sa, sb = set(r['a']), set(r['b'])
            ok = ok and set(r['ab']) == sa | sb and set(r['ba']) == sa | sb
            ok = ok and set(r['isab']) == set(r['isa']) | set(r['isb'])
            if not (ns and '' in ns):
                ok = ok and r['isab'] == r['ab']
            ok = ok and set(r['nota']) == set(r['star']) - set(r['isa'])
            ok = ok and set(r['notab']) == set(r['star']) - set(r['isab'])
            ok = ok and r['wab'] == r['isab'] and r['mab'] == r['isab']
            # a pseudo-class name spelled with escapes is the same pseudo-class (negation, forgiving list, relative list)
            ok = ok and r['notesc'] == r['nota'] and r['isesc'] == r['isab'] and r['hasesc'] == r['has']
            ok = ok and sa <= set(r['ab']) and sb <= set(r['ab'])
            ok = ok and set(r['xisa']) == set(r['x']) & set(r['anyisa'])
            if not (ns and '' in ns):
                ok = ok and r['isa'] == r['a'] and r['isb'] == r['b']      # ':is(A)' alone is A
            ok = ok and set(_ids(_sel(f':not(:not({A}))', ns), d)) == set(r['isa'])
            # the same laws with an explicit namespace-free subject (no implied universal that a default namespace limits)
            ok = ok and set(r['anynotab']) == set(r['any']) - set(r['anyisab'])
            ok = ok and set(r['anynota']) == set(r['any']) - set(r['anyisa'])
            ok = ok and r['anymab'] == r['anyisab'] and r['anywab'] == r['anyisab']
            ok = ok and set(r['anyisab']) == set(r['anyisa']) | set(_ids(_sel(f'*|*:is({B})', ns), d))
            # results are duplicate free and in document order
            ok = ok and len(set(r['ab'])) == len(r['ab'])
    return ok


PLIM = 80 if TIER == 'quick' else 4000
