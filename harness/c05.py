"""C05 — selector lists and logical pseudo-classes form a Boolean algebra (metamorphic; no external oracle)."""
from __future__ import annotations
import os
from vlib.hsupport import *  # noqa: F401,F403
from vlib.hsupport import bs4, cm, cp, ct, sv, util, ret, part, TIER, html_soup, concrete, notrace, PART, NPARTS
from vlib import treegen as tg, selgen

SEED = int(os.environ.get('VERIF_SEED', '0') or 0)
IFRAME_DOC = '''<html><body><div id="o"><p id="op" dir="rtl">a</p><iframe id="fr"><html><body><div id="i"><p id="ip">b</p><x id="ix" dir="ltr">c</x></div></body></html></iframe><x id="ox"></x></div><span id="s">d</span><custom-el id="ce"></custom-el></body></html>'''
SVG_DOC = '''<html xmlns="http://www.w3.org/1999/xhtml"><body><p id="p" dir="ltr">t</p><span id="sp">u</span><svg xmlns="http://www.w3.org/2000/svg" id="svg"><circle id="c1"/><a id="sa" href="#"/></svg><a id="ha" href="#">l</a><input id="in" type="checkbox" checked=""/></body></html>'''
DOCS = [tg.doc(n) for n in ('forms_hp', 'forms_h5', 'plain_hp', 'xhtml', 'xml', 'multiroot_hp')]
DOCS.append(bs4.BeautifulSoup(IFRAME_DOC, 'html.parser'))
DOCS.append(bs4.BeautifulSoup(SVG_DOC, 'xml'))
DOCS.append(bs4.BeautifulSoup(SVG_DOC, 'html5lib'))
DOCS.append(bs4.BeautifulSoup('<root><span id="a"/><p id="b" dir="ltr"/><x-y id="c"/></root>', 'xml'))

NSMAPS = [None, {'x': 'urn:x', 'svg': 'http://www.w3.org/2000/svg', 'html': 'http://www.w3.org/1999/xhtml'},
          {'': 'http://www.w3.org/1999/xhtml', 'svg': 'http://www.w3.org/2000/svg'}]
CUSTOM = {':--z': 'p, span', ':--d': ':dir(ltr)'}

ALTS = selgen.general_pool() + [
    'p:dir(ltr)', 'x:dir(ltr)', 'span', 'svg|circle', 'svg|*', 'html|p', '#o p', 'div p', ':--z', ':--d', 'p:defined',
    ':defined', 'x-y', '*|circle', 'input:checked', 'a:link', 'svg|a', 'p:lang(en)', ':root', 'div > p:dir(rtl)',
    '#i x:dir(ltr)', 'iframe p', ':not(p)', ':is(span, p:dir(ltr))', 'li:nth-child(2)', ':has(> p)', 'p:empty',
]
ALTS = [a for i, a in enumerate(ALTS) if a not in ALTS[:i]]
# `&`/':scope' at top level depend on the call target only, which is the same on both sides of every law: keep them
COMPOUNDS = ['*', 'p', 'span', '.a', '[id]', 'svg|*', 'input', ':checked', ':dir(ltr)', ':defined', ':first-child', 'x']
NA = len(ALTS)
NPAIR = NA * NA


def _sel(text, ns):
    try:
        return sv.compile(text, ns, custom=CUSTOM)
    except Exception:  # noqa: BLE001
        return None


def _ids(c, d):
    return [id(e) for e in c.select(d)]


def laws_ok(pi: int) -> bool:
    """
    pre: 0 <= pi < PLIM
    post: _
    """
    # for the pair (A, B) decoded from one scrambled index and every document of the pool:
    #   'A, B' = A u B;  ':is(A, B)' = ':is(A)' u ':is(B)'  (= 'A, B' without a default namespace);
    #   ':not(A)' = '*' \\ ':is(A)';  ':not(A, B)' = '*' \\ ':is(A, B)';  :where / :matches == :is;
    #   A is a subset of 'A, B' and of 'B, A';  'X:is(A)' = X n '*|*:is(A)' for compound X (the bare ':is(A)' carries an implied universal that a default
    #   namespace restricts)
    pi = concrete(pi)
    with notrace():
        ok = True
        for ni in range(len(NSMAPS)):
            ok = ok and _laws(pi, ni)
    return ret(ok)


def _laws(pi, ni):
    if True:
        x = ((pi * NPARTS + PART) * 2654435761 + 131 * SEED) % NPAIR
        A, B = ALTS[x % NA], ALTS[x // NA]
        ns = NSMAPS[ni]
        X = COMPOUNDS[x % len(COMPOUNDS)]
        texts = dict(a=A, b=B, ab=f'{A}, {B}', ba=f'{B}, {A}', isab=f':is({A}, {B})', isa=f':is({A})', isb=f':is({B})',
                     nota=f':not({A})', notab=f':not({A}, {B})', wab=f':where({A}, {B})', mab=f':matches({A}, {B})',
                     star='*', x=X, xisa=f'{X}:is({A})', anyisa=f'*|*:is({A})')
        c = {k: _sel(t, ns) for k, t in texts.items()}
        if any(v is None for v in c.values()):
            return False
        ok = True
        for d in DOCS:
            r = {k: _ids(v, d) for k, v in c.items()}
            order = {i: n for n, i in enumerate(_ids(c['star'], d) if ns and '' in ns else [id(e) for e in tg.elements(d)])}
            sa, sb = set(r['a']), set(r['b'])
            ok = ok and set(r['ab']) == sa | sb and set(r['ba']) == sa | sb
            ok = ok and set(r['isab']) == set(r['isa']) | set(r['isb'])
            if not (ns and '' in ns):
                ok = ok and r['isab'] == r['ab']
            ok = ok and set(r['nota']) == set(r['star']) - set(r['isa'])
            ok = ok and set(r['notab']) == set(r['star']) - set(r['isab'])
            ok = ok and r['wab'] == r['isab'] and r['mab'] == r['isab']
            ok = ok and sa <= set(r['ab']) and sb <= set(r['ab'])
            ok = ok and set(r['xisa']) == set(r['x']) & set(r['anyisa'])
            # results are duplicate free and in document order
            ok = ok and len(set(r['ab'])) == len(r['ab'])
    return ok


PLIM = 60 if TIER == 'quick' else 4000
