"""C02 — positional pseudo-classes implement An+B exactly.

E1 conditions over the real `CSSMatch.match_nth`, `CSSParser.parse_pseudo_nth` and the real
parser.  Integers A and B are symbolic (solver-decided), sibling layouts are chosen by a symbolic
index into an enumerated pool.
"""
from __future__ import annotations
import itertools
from types import SimpleNamespace
from vlib.hsupport import *  # noqa: F401,F403
from vlib.hsupport import bs4, cm, cp, ct, sv, ret, part, TIER, html_soup, xml_soup, concrete, notrace

# ---------------------------------------------------------------------------------------------
# reference (written from Selectors-4 §"An+B", not from soupsieve)


def ref_anb(a: int, b: int, pos: int) -> bool:
    """Does some integer n >= 0 satisfy a*n + b == pos ?"""
    if a == 0:
        return pos == b
    d = pos - b
    if a > 0:
        return d >= 0 and d % a == 0
    return d <= 0 and (-d) % (-a) == 0


# node kinds of a sibling layout
K_LI, K_LIX, K_P, K_PX, K_TEXT, K_COMMENT, K_LIU, K_LIN = range(8)
# K_LIU: <LI> spelled in upper case through the API; K_LIN: <li> (same prefix) in another namespace
ELEMENT_KINDS = (K_LI, K_LIX, K_P, K_PX, K_LIU, K_LIN)


def _layouts():
    out = []
    full = (K_LI, K_LIX, K_P, K_PX, K_TEXT, K_COMMENT, K_LIU, K_LIN)
    small = (K_LI, K_P, K_TEXT)
    maxfull, maxsmall = (3, 4) if TIER == 'quick' else (5, 8)
    for n in range(1, maxfull + 1):
        out.extend(itertools.product(full, repeat=n))
    for n in range(maxfull + 1, maxsmall + 1):
        out.extend(itertools.product(small, repeat=n))
    out = [l for l in out if any(k in ELEMENT_KINDS for k in l)]
    return out


LAYOUTS = part(_layouts())
NL = len(LAYOUTS)

S_CLASS_X = cp.CSSParser('.x').process_selectors(flags=cp.FLG_PSEUDO)


def build(layout, container):
    """container 0: children of a <ul> in an HTML document; 1: top-level nodes of the document object;
    2: children of a detached <ul> (no document); 3: children of <ul> in an XML document."""
    soup = xml_soup() if container == 3 else html_soup()
    if container == 1:
        parent = soup
    else:
        parent = soup.new_tag('ul')
        if container != 2:
            soup.append(parent)
    els = []
    for k in layout:
        if k in ELEMENT_KINDS:
            el = soup.new_tag('LI' if k == K_LIU else ('li' if k in (K_LI, K_LIX, K_LIN) else 'p'))
            if k == K_LIN:
                el.namespace = 'urn:n'
            if k in (K_LIX, K_PX):
                el.attrs['class'] = ['x']
            parent.append(el)
            els.append((k, el))
        elif k == K_TEXT:
            parent.append(bs4.NavigableString(' '))
        else:
            parent.append(bs4.Comment('c'))
    return soup, parent, els


def _type_of(k, xml):
    if k in (K_LI, K_LIX):
        return 'li'
    if k == K_LIN:
        return ('li', 'urn:n') if xml else 'li'     # trees from html.parser carry no namespaces: the attribute is ignored
    if k == K_LIU:
        return 'LI' if xml else 'li'
    return 'p'


def ref_position(els, i, last, of_type, of_x, xml=False):
    """1-based position of els[i] among its qualifying element siblings, or 0 if it does not qualify."""
    k, _ = els[i]

    def qual(kk):
        if of_x and kk not in (K_LIX, K_PX):
            return False
        if of_type and _type_of(kk, xml) != _type_of(k, xml):
            return False
        return True

    if not qual(k):
        return 0
    seq = els[::-1] if last else els
    pos = 0
    for kk, e in seq:
        if qual(kk):
            pos += 1
        if e is els[i][1]:
            return pos
    return 0


# Trees are concrete (their shape is control flow, not data) and matching never mutates them, so they are
# built once at import, outside tracing; only integers, Booleans and pool indices are symbolic.
_TREE_CACHE = {}


def tree(layout, container):
    key = (layout, container)
    if key not in _TREE_CACHE:
        _TREE_CACHE[key] = build(layout, container)
    return _TREE_CACHE[key]


NMAX = 6 if TIER == 'quick' else 9
ARITH_KEYS = part([(n, txt) for n in range(1, NMAX + 1) for txt in (0, 1, 2)])
NAK = len(ARITH_KEYS)
for _n, _t in ARITH_KEYS:
    _lay = []
    for _i in range(_n):
        if _t:
            _lay.append(K_TEXT if _t == 1 else K_COMMENT)
        _lay.append(K_LI)
    tree(tuple(_lay), 0)


def nth_arith_ok(a: int, b: int, var: bool, last: bool, ki: int, ei: int) -> bool:
    """
    pre: 0 <= ki < NAK
    pre: 0 <= ei < ARITH_KEYS[ki][0]
    post: _
    """
    # a and b are UNBOUNDED symbolic integers: the solver decides the arithmetic of match_nth for every A and B
    n, txt = ARITH_KEYS[ki]
    lay = []
    for _ in range(n):
        if txt:
            lay.append(K_TEXT if txt == 1 else K_COMMENT)
        lay.append(K_LI)
    soup, parent, els = tree(tuple(lay), 0)
    m = cm.CSSMatch(ct.SelectorList(), soup, None, 0)
    nth = SimpleNamespace(a=a, n=var, b=b, of_type=False, last=last, selectors=cp.CSS_NTH_OF_S_DEFAULT)
    pos = (n - ei) if last else ei + 1
    expected = ref_anb(a, b, pos) if var else pos == a
    return ret(bool(m.match_nth(els[ei][1], (nth,))) == expected)


WALK = [(l, c) for l in LAYOUTS for c in (0, 1, 2, 3) if c == 0 or len(l) <= (3 if TIER == 'quick' else 4)]
NW = len(WALK)
for _l, _c in WALK:
    tree(_l, _c)


def _walk(wi: int, mode: int, last: bool) -> bool:
    # the position the real sibling walk assigns to every element (recovered through :nth-*(p), p = 0..n+1)
    # equals the reference position, for child / of-type / "of .x" counting from either end
    if True:
        layout, container = WALK[wi]
        of_type = mode == 1
        of_x = mode == 2
        soup, parent, els = tree(layout, container)
        m = cm.CSSMatch(ct.SelectorList(), els[0][1] if container == 2 else soup, None, 0)
        sel = ct.SelectorList() if of_type else (S_CLASS_X if of_x else cp.CSS_NTH_OF_S_DEFAULT)
        ok = True
        for i in range(len(els)):
            pos = ref_position(els, i, last, of_type, of_x, container == 3)
            for p in range(0, len(els) + 2):
                nth = SimpleNamespace(a=p, n=False, b=0, of_type=of_type, last=last, selectors=sel)
                if bool(m.match_nth(els[i][1], (nth,))) != (pos == p and pos > 0):
                    ok = False
            # and one variable form per element: 2n+1 / -n+2
            for (aa, bb) in ((2, 1), (-1, 2)):
                nth = SimpleNamespace(a=aa, n=True, b=bb, of_type=of_type, last=last, selectors=sel)
                if bool(m.match_nth(els[i][1], (nth,))) != (pos > 0 and ref_anb(aa, bb, pos)):
                    ok = False
    return ok



WBLOCK = 6


def nth_walk_ok(bi: int) -> bool:
    """
    pre: 0 <= bi * WBLOCK < NW
    post: _
    """
    # a block of 6 layouts / containers is chosen by symbolic index; the three counting modes and both directions run natively
    bi = concrete(bi)
    ok = True
    with notrace():
        for wi in range(bi * WBLOCK, min(NW, (bi + 1) * WBLOCK)):
            for mode in (0, 1, 2):
                for last in (False, True):
                    ok = ok and _walk(wi, mode, last)
    return ret(ok)


PAIR_MODES = [(0, 2), (2, 0), (2, 2), (0, 1), (1, 2), (0, 0)]


def _pairs(wi: int, pm: int, last1: bool, last2: bool) -> bool:
    # two positional pseudo-classes on one compound (different "of S" / of-type / direction): the element matches iff
    # it matches each of them alone (positions p, q tried for all p, q)
    if True:
        layout, container = WALK[wi]
        soup, parent, els = tree(layout, container)
        m = cm.CSSMatch(ct.SelectorList(), els[0][1] if container == 2 else soup, None, 0)
        ok = True
        specs = []
        for mode, last in ((PAIR_MODES[pm][0], last1), (PAIR_MODES[pm][1], last2)):
            of_type, of_x = mode == 1, mode == 2
            sel = ct.SelectorList() if of_type else (S_CLASS_X if of_x else cp.CSS_NTH_OF_S_DEFAULT)
            specs.append((of_type, of_x, last, sel))
        for i in range(len(els)):
            for p in range(1, len(els) + 1):
                for q in range(1, len(els) + 1):
                    n1 = SimpleNamespace(a=p, n=False, b=0, of_type=specs[0][0], last=specs[0][2], selectors=specs[0][3])
                    n2 = SimpleNamespace(a=q, n=False, b=0, of_type=specs[1][0], last=specs[1][2], selectors=specs[1][3])
                    both = bool(m.match_nth(els[i][1], (n1, n2)))
                    exp = (ref_position(els, i, specs[0][2], specs[0][0], specs[0][1], container == 3) == p and
                           ref_position(els, i, specs[1][2], specs[1][0], specs[1][1], container == 3) == q)
                    if both != exp:
                        ok = False
    return ok


def nth_pairs_ok(bi: int) -> bool:
    """
    pre: 0 <= bi * WBLOCK < NW
    post: _
    """
    bi = concrete(bi)
    ok = True
    with notrace():
        for wi in range(bi * WBLOCK, min(NW, (bi + 1) * WBLOCK)):
            for pm in range(len(PAIR_MODES)):
                for last1 in (False, True):
                    for last2 in (False, True):
                        ok = ok and _pairs(wi, pm, last1, last2)
    return ret(ok)


def nth_detached_ok(a: int, b: int, var: bool, last: bool, of_type: bool) -> bool:
    """
    post: _
    """
    # an element with no parent at all: position 1 among its (fake) siblings; a, b unbounded
    el = DETACHED
    m = cm.CSSMatch(ct.SelectorList(), el, None, 0)
    sel = ct.SelectorList() if of_type else cp.CSS_NTH_OF_S_DEFAULT
    nth = SimpleNamespace(a=a, n=var, b=b, of_type=of_type, last=last, selectors=sel)
    expected = ref_anb(a, b, 1) if var else a == 1
    return ret(bool(m.match_nth(el, (nth,))) == expected)


DETACHED = html_soup().new_tag('li')


# ---------------------------------------------------------------------------------------------
# micro-syntax: An+B text -> (a, n, b)

DIGITS = '0123456789'


def ref_parse_anb(s: str):
    """Reference An+B parser (CSS Syntax 3, §6 'The An+B microsyntax'), restricted to what a
    functional-pseudo argument can contain without comments.  Returns (A, B) or None."""
    t = s.lower()
    if t == 'even':
        return (2, 0)
    if t == 'odd':
        return (2, 1)
    i = 0
    n = len(t)
    sign = 1
    had_sign = False
    if i < n and t[i] in '+-':
        sign = -1 if t[i] == '-' else 1
        had_sign = True
        i += 1
    j = i
    while j < n and t[j] in DIGITS:
        j += 1
    digs = t[i:j]
    i = j
    if i < n and t[i] == 'n':
        a = sign * (int(digs) if digs else 1)
        i += 1
        # optional: ws* sign ws* digits
        k = i
        while k < n and t[k] in ' \t\n\r\f':
            k += 1
        if k == n:
            return (a, 0) if k == i else None
        if t[k] not in '+-':
            return None
        s2 = -1 if t[k] == '-' else 1
        k += 1
        while k < n and t[k] in ' \t\n\r\f':
            k += 1
        d2 = t[k:]
        if not d2 or any(c not in DIGITS for c in d2):
            return None
        return (a, s2 * int(d2))
    if i == n and digs:
        return (0, sign * int(digs))
    return None


class _FakeMatch:
    """Duck-typed re.Match for the groups parse_pseudo_nth reads."""

    def __init__(self, name, content, child):
        self._d = {'name': name, 'open': '(', 'of': None}
        if child:
            self._d.update(pseudo_nth_child=name + '(' + content, nth_child=content)
        else:
            self._d.update(pseudo_nth_type=name + '(' + content, nth_type=content)

    def groupdict(self):
        return dict(self._d)

    def group(self, k):
        return self._d.get(k)

    def end(self, k=0):
        return 0


ALPHA = '0123456789nN+- '
NAMES = part([(':nth-child', True, False, False), (':nth-last-child', True, False, True),
              (':nth-of-type', False, True, False), (':nth-last-of-type', False, True, True)])
NNAMES = len(NAMES)


def nth_parse_ok(s: str, which: int) -> bool:
    """
    pre: 1 <= len(s) <= SLEN
    pre: all(c in ALPHA for c in s)
    pre: 0 <= which < NNAMES
    pre: ref_parse_anb(s) is not None
    post: _
    """
    name, child, of_type, last = NAMES[which]
    A, B = ref_parse_anb(s)
    parser = cp.CSSParser(name + '(' + s + ')')
    sel = cp._Selector()
    parser.parse_pseudo_nth(sel, _FakeMatch(name, s, child), False, iter(()))
    n = sel.nth[0]
    # the IR stores a constant position as (a=B, n=False, b=0) and a variable one as (a, True, b)
    got = (n.a, n.b) if n.n else (0, n.a)
    ok = (got == (A, B)) and n.of_type == of_type and n.last == last and (n.n or n.b == 0)
    return ret(ok)


SLEN = 3 if TIER == 'quick' else 6


def nth_keywords_ok(k: int, container: int, li: int) -> bool:
    """
    pre: 0 <= li < NL
    pre: 0 <= k < 6
    pre: 0 <= container <= 1
    post: _
    """
    # :first-child ... :only-of-type select exactly what their An+B instances select (real API)
    k, container, li = concrete(k), concrete(container), concrete(li)
    with notrace():
        kw, eq = KEYWORDS[k]
        soup, parent, els = tree(LAYOUTS[li], container)
        ids = [id(e) for _, e in els]
        r1 = [id(e) for e in KW_COMPILED[k][0].select(soup) if id(e) in ids]
        r2 = [id(e) for e in KW_COMPILED[k][1].select(soup) if id(e) in ids]
        # and both agree with the reference position being `b` (=1) from the relevant end(s)
        exp = []
        for i, (kk, e) in enumerate(els):
            of_type = 'type' in kw
            need = []
            if 'first' in kw or 'only' in kw:
                need.append(ref_position(els, i, False, of_type, False) == 1)
            if 'last' in kw or 'only' in kw:
                need.append(ref_position(els, i, True, of_type, False) == 1)
            if all(need):
                exp.append(id(e))
    return ret(r1 == r2 == exp)


KEYWORDS = [
    (':first-child', ':nth-child(1)'), (':last-child', ':nth-last-child(1)'),
    (':only-child', ':nth-child(1):nth-last-child(1)'), (':first-of-type', ':nth-of-type(1)'),
    (':last-of-type', ':nth-last-of-type(1)'), (':only-of-type', ':nth-of-type(1):nth-last-of-type(1)'),
]
KW_COMPILED = [(sv.compile(a), sv.compile(b)) for a, b in KEYWORDS]


COMMENT_SPELLINGS = [
    ('2n/**/+1', 2, 1), ('2n /* s */ + /* t */ 1', 2, 1), ('-n/**/+3', -1, 3), ('n/**/-/**/2', 1, -2), ('3n/* */-1', 3, -1),
    ('2N/**/+1', 2, 1), ('+n /**/ + 2', 1, 2), ('/**/2n+1', 2, 1), ('2n+1/**/', 2, 1), ('-2n /**/ - 1', -2, -1),
    ('n \t+\n 4', 1, 4), ('EVEN', 2, 0), ('/* x */odd/* y */', 2, 1), ('5/**/', 0, 5),
]
NTH_NAMES = [':nth-child', ':nth-last-child', ':nth-of-type', ':nth-last-of-type', ':NTH-CHILD']


def nth_comment_spelling_ok(si: int, ni: int, with_of: bool) -> bool:
    """
    pre: 0 <= si < len(COMMENT_SPELLINGS)
    pre: 0 <= ni < len(NTH_NAMES)
    post: _
    """
    # An+B spellings with comments / mixed whitespace around the sign, through the real compile(): the IR carries the
    # reference (a, b)
    si, ni, with_of = concrete(si), concrete(ni), concrete(with_of)
    with notrace():
        text, A, B = COMMENT_SPELLINGS[si]
        name = NTH_NAMES[ni]
        child = 'child' in name.lower()
        pat = name + '(' + text + (' of .x' if (with_of and child) else '') + ')'
        try:
            c = sv.compile(pat)
        except Exception:  # noqa: BLE001
            return ret(False)
        n = c.selectors[0].nth[0]
        got = (n.a, n.b) if n.n else (0, n.a)
        ok = got == (A, B) and n.of_type == (not child) and n.last == ('last' in name.lower())
        if with_of and child:
            ok = ok and len(n.selectors) == 1 and n.selectors[0].classes == ('x',)
    return ret(ok)


# ---------------------------------------------------------------------------------------------
# "of S" where S is a namespace test: the counted siblings are exactly those S designates under the caller's prefix map
NSX = bs4.BeautifulSoup('<r xmlns="urn:a" xmlns:b="urn:b"><e id="e0"/><b:e id="e1"/><e id="e2"/><n xmlns="" id="e3"/><b:e id="e4"/>'
                        '<e id="e5"/><n xmlns="" id="e6"/></r>', 'xml')
NSX_KIDS = [t for t in NSX.r.contents if isinstance(t, bs4.Tag)]
NS_MAPS = [None, {}, {'': 'urn:a'}, {'': 'urn:b', 'x': 'urn:a'}, {'x': 'urn:b'}, {'': '', 'x': 'urn:b'}]
# (text of S, predicate(namespace of the sibling, map))
OF_S = [
    ('*', lambda ns, m: m is None or '' not in m or m[''] == ns),
    ('*|*', lambda ns, m: True),
    ('|*', lambda ns, m: ns == ''),
    ('x|*', lambda ns, m: m is not None and 'x' in m and m['x'] == ns),
    ('e', None),
]
NTH_FORMS = [(':nth-child(%s of %s)', False), (':nth-last-child(%s of %s)', True)]
ANB = [('1', 0, 1), ('2', 0, 2), ('n+2', 1, 2), ('2n+1', 2, 1), ('-n+2', -1, 2), ('odd', 2, 1)]


def nth_of_ns_ok(oi: int, mi: int) -> bool:
    """
    pre: 0 <= oi < len(OF_S)
    pre: 0 <= mi < len(NS_MAPS)
    post: _
    """
    oi, mi = concrete(oi), concrete(mi)
    with notrace():
        stext, pred = OF_S[oi]
        m = NS_MAPS[mi]
        if pred is None:
            def pred(ns, m, _d=OF_S[0][1]):      # a bare type selector: same namespace rule as the bare universal
                return _d(ns, m)
            keep = [k for k in NSX_KIDS if k.name == 'e' and pred(k.namespace or '', m)]
        else:
            keep = [k for k in NSX_KIDS if pred(k.namespace or '', m)]
        ok = True
        for form, last in NTH_FORMS:
            for txt, a, b in ANB:
                c = sv.compile('*|*' + form % (txt, stext), namespaces=m)
                seq = keep[::-1] if last else keep
                exp = [k.get('id') for k in NSX_KIDS if any(k is s and ref_anb(a, b, i + 1) for i, s in enumerate(seq))]
                got = [k.get('id') for k in c.select(NSX.r)]
                ok = ok and got == exp and [k.get('id') for k in NSX_KIDS if c.match(k)] == exp
    return ret(ok)
