"""C17 — HTML state pseudo-classes follow their definitions and partition laws."""
from __future__ import annotations
import os
import random
from vlib.hsupport import *  # noqa: F401,F403
from vlib.hsupport import bs4, cm, cp, ct, sv, util, ret, part, TIER, concrete, notrace
from vlib import refmodel as rm, treegen as tg

SEED = int(os.environ.get('VERIF_SEED', '0') or 0)
TYPES = [None, 'text', 'checkbox', 'radio', 'submit', 'number', 'range', 'date', 'TEXT', 'search', 'email', 'password',
         'tel', 'url', 'button', 'image', 'week', 'time', 'month', 'datetime-local', 'color', 'file', 'reset', 'Radio',
         'SUBMIT', '', 'hidden', 'HIDDEN']
TYPES_W = TYPES + ['radio'] * 9 + ['checkbox'] * 3 + ['submit'] * 4 + ['number', 'date', 'text'] * 2 + ['hidden'] * 4 + \
    ['number', 'range', 'time', 'week', 'month', 'datetime-local', 'Number'] * 2
RANGE_TYPES = ('date', 'month', 'week', 'time', 'datetime-local', 'number', 'range')


def gen_doc(r):
    soup = bs4.BeautifulSoup('<html><head></head><body></body></html>', 'html.parser')
    n = [0]
    heavy = r.random() < 0.5      # radio / submit heavy document

    def mk(tname, parent, **attrs):
        t = soup.new_tag(tname)
        n[0] += 1
        t.attrs['id'] = 'e%d' % n[0]
        for k, v in attrs.items():
            if v is not None:
                t.attrs[k] = v
        parent.append(t)
        return t

    def flag(p=0.3):
        return '' if r.random() < p else None

    def control(parent):
        k = r.random() * (0.62 if heavy else 1.0)
        if k < 0.5:
            ty = r.choice(['radio', 'radio', 'radio', 'submit', 'checkbox', 'Radio', 'image']) if heavy and r.random() < 0.8 \
                else r.choice(TYPES_W)
            t = mk('input', parent, type=ty, checked=flag(), disabled=flag(0.15), readonly=flag(0.15), required=flag(),
                   placeholder=r.choice([None, None, '', 'p']), value=r.choice([None, None, '', 'v', '3', '9', '2001-01-01']),
                   name=r.choice([None, 'g', 'g', 'h', '']), indeterminate=flag(0.15),
                   min=r.choice([None, None, '1', 'x', '2000-01-01', '+1', ' 1', '1.', '.5', '1e1', '12:30', '2000-W05']),
                   max=r.choice([None, None, '5', '', '2002-01-01', 'inf', '5_0', '٥', '-.5e-1', '2002-02-30', '2002-13', '24:00']))
            if r.random() < 0.2:
                t.attrs['dir'] = r.choice(['auto', 'rtl', 'ltr', 'bogus'])
        elif k < 0.6:
            mk('button', parent, type=r.choice(['submit', 'button', 'reset', 'SUBMIT']), disabled=flag(0.2))
        elif k < 0.7:
            s = mk('select', parent, required=flag(), disabled=flag(0.2))
            g = mk('optgroup', s, disabled=flag())
            mk('option', g, selected=flag(), disabled=flag(0.2))
            mk('option', s, selected=flag())
        elif k < 0.8:
            t = mk('textarea', parent, readonly=flag(0.2), required=flag(), placeholder=r.choice([None, '', 'p']),
                   disabled=flag(0.15), dir=r.choice([None, 'auto']))
            c = r.choice(['', '\n', 'x', 'שלום', '123', ' (1) ', '\n 7'])
            if c:
                t.append(bs4.NavigableString(c))
        elif k < 0.84:
            mk('progress', parent, value=r.choice([None, '1']))
        elif k < 0.94:
            fs = mk('fieldset', parent, disabled=flag(0.5))
            if r.random() < 0.6:
                lg = mk('legend', fs)
                control(lg)
            for _ in range(r.choice([1, 2])):
                # controls directly in the fieldset or one / two levels deeper
                host = fs
                for _d in range(r.choice([0, 0, 1, 2])):
                    host = mk(r.choice(['div', 'p', 'span']), host)
                control(host)
            if r.random() < 0.3:
                lg2 = mk('legend', fs)
                control(lg2)
            if r.random() < 0.25:
                # a framed document inside the fieldset: its controls belong to another document
                ib = mk('body', mk('html', mk('iframe', r.choice([fs, fs.contents[-1]]))))
                control(ib)
                if r.random() < 0.5:
                    control(mk('form', ib))
        else:
            d = mk('div', parent, contenteditable=r.choice([None, '', 'true', 'TRUE', 'false']), dir=r.choice([None, None, 'rtl']))
            control(d)

    def block(parent, depth=0):
        for _ in range(r.choice([2, 3, 4, 5] if heavy else [1, 2, 3])):
            k = r.random()
            if k < 0.4:
                f = mk('form', parent, dir=r.choice([None, None, 'rtl', 'auto']))
                for _ in range(r.choice([1, 2, 3, 4])):
                    control(f)
                if heavy and r.random() < 0.3:
                    f2 = mk('form', f)        # nested form (only reachable through the bs4 API)
                    control(f2)
            elif k < 0.6:
                control(parent)
            elif k < 0.75:
                p = mk('p', parent, dir=r.choice([None, 'ltr', 'rtl', 'auto', 'AUTO', 'x']), lang=r.choice([None, 'en']))
                first = r.random() < 0.5
                if first:
                    p.append(bs4.NavigableString(r.choice(['text', 'שלום', '123', ''])))
                b = mk(r.choice(['span', 'bdi', 'a', 'area']), p, href=r.choice([None, '#']),
                       dir=r.choice([None, None, 'auto', 'Auto', 'ltr', 'rtl', '']))
                b.append(bs4.NavigableString(r.choice(['ا', 'b', ''])))
                if r.random() < 0.3:
                    b2 = mk(r.choice(['b', 'script', 'textarea']), b)
                    b2.append(bs4.NavigableString(r.choice(['ا', 'b'])))
                if not first or r.random() < 0.3:
                    p.append(bs4.NavigableString(r.choice(['text', 'שלום', ' 1 ', 'x'])))
            elif depth < 1:
                fr = mk('iframe', parent)
                ih = mk('html', fr)
                ib = mk('body', ih, dir=r.choice([None, 'rtl']))
                block(ib, depth + 1)
            else:
                mk('custom-el', parent)
    body = soup.find('body')
    if r.random() < 0.3:
        soup.find('html').attrs['dir'] = r.choice(['rtl', 'ltr', 'auto'])
    block(body)
    _twins(soup, r)
    return soup


def _twins(soup, r):
    """Sometimes append exact copies of a form / fieldset (identical markup, distinct nodes, ids removed)."""
    import copy
    forms = [f for f in soup.find_all(['form', 'fieldset']) if f.parent is not None]
    if forms and r.random() < 0.45:
        f = r.choice(forms)
        for t in [f] + f.find_all(True):
            t.attrs.pop('id', None)
        for _ in range(r.choice([1, 2])):
            f.insert_after(copy.copy(f))


def gen_group_doc(r):
    """Radio-group / submit-button scenario: controls scattered over body, two forms, a nested form, a fieldset and an
    iframe document."""
    soup = bs4.BeautifulSoup('<html><head></head><body></body></html>', 'html.parser')
    body = soup.find('body')
    n = [0]

    def mk(tname, parent, **attrs):
        t = soup.new_tag(tname)
        n[0] += 1
        t.attrs['id'] = 'g%d' % n[0]
        for k, v in attrs.items():
            if v is not None:
                t.attrs[k] = v
        parent.append(t)
        return t
    f1 = mk('form', body)
    fs = mk('fieldset', f1, disabled=r.choice([None, '']))
    f2 = mk('form', body)
    nested = mk('form', f1) if r.random() < 0.4 else f1
    fr = mk('iframe', body)
    ib = mk('body', mk('html', fr))
    f3 = mk('form', ib) if r.random() < 0.5 else ib
    places = [body, f1, fs, f2, nested, ib, f3, mk('div', body), mk('p', f2)]
    for _ in range(r.randint(4, 9)):
        p = r.choice(places)
        k = r.random()
        if k < 0.6:
            mk('input', p, type=r.choice(['radio', 'radio', 'RADIO']), name=r.choice(['g', 'g', 'h', 'G', '', None]),
               checked=r.choice([None, None, '']))
        elif k < 0.85:
            mk(r.choice(['input', 'button']), p, type=r.choice(['submit', 'submit', 'Submit', 'button', 'image']))
        else:
            mk('input', p, type='checkbox', checked=r.choice([None, '']), indeterminate=r.choice([None, '']))
    _twins(soup, r)
    return soup


_r = random.Random(1700 + SEED)
NDOCS = 300 if TIER == 'quick' else 3000
DOCS = part([(gen_group_doc(_r) if i % 3 == 2 else gen_doc(_r)) for i in range(NDOCS)])
for _name in ('forms_hp', 'forms_lxml', 'forms_h5'):
    DOCS.append(tg.doc(_name))
ND = len(DOCS)

NAMES = [':enabled', ':disabled', ':required', ':optional', ':read-write', ':read-only', ':in-range', ':out-of-range', ':link',
         ':any-link', ':checked', ':default', ':dir(ltr)', ':dir(rtl)', ':indeterminate', ':placeholder-shown', '*']
SEL = {n: sv.compile(n) for n in NAMES}


def low(s):
    return rm.lower_ascii(s) if s is not None else None


def attr(el, name):
    for k, v in el.attrs.items():
        if low(str(k)) == name:
            return v if isinstance(v, str) else ' '.join(v)
    return None


def tag(el):
    return low(el.name)


def doc_parent(el):
    """Parent element inside the same document (an iframe is a document boundary)."""
    p = el.parent
    if p is None or not rm.is_element(p) or tag(p) == 'iframe':
        return None
    return p


def form_owner(el):
    p = doc_parent(el)
    while p is not None:
        if tag(p) == 'form':
            return p
        p = doc_parent(p)
    return None


def doc_root(el):
    cur = el
    while doc_parent(cur) is not None:
        cur = doc_parent(cur)
    return cur


def walk(node):
    """Descendant elements in document order, not entering iframes."""
    for c in node.contents:
        if rm.is_element(c):
            yield c
            if tag(c) != 'iframe':
                yield from walk(c)


def is_html(el):
    return (el.namespace or rm.XHTML) == rm.XHTML


def laws(soup):
    r = {n: set(id(e) for e in c.select(soup)) for n, c in SEL.items()}
    els = [e for e in rm.descendants(soup)]
    ok = True
    controls = set(id(e) for e in els if is_html(e) and (
        tag(e) in ('button', 'select', 'textarea', 'fieldset', 'optgroup', 'option') or
        (tag(e) == 'input' and low(attr(e, 'type')) != 'hidden')))
    ok = ok and not (r[':enabled'] & r[':disabled']) and (r[':enabled'] | r[':disabled']) == controls
    req = set(id(e) for e in els if is_html(e) and tag(e) in ('input', 'select', 'textarea'))
    ok = ok and not (r[':required'] & r[':optional']) and (r[':required'] | r[':optional']) == req
    ok = ok and not (r[':read-write'] & r[':read-only']) and (r[':read-write'] | r[':read-only']) == set(id(e) for e in els if is_html(e))
    ok = ok and not (r[':in-range'] & r[':out-of-range'])
    ok = ok and r[':link'] == r[':any-link']
    ok = ok and r[':checked'] <= r[':default']
    html_els = set(id(e) for e in els if is_html(e))
    ok = ok and not (r[':dir(ltr)'] & r[':dir(rtl)']) and (r[':dir(ltr)'] | r[':dir(rtl)']) == html_els
    return ok, r, els


def ref_default(els, checked):
    out = set(checked)
    seen = {}
    for e in els:
        if is_html(e) and tag(e) in ('button', 'input') and low(attr(e, 'type')) == 'submit':
            f = form_owner(e)
            if f is not None and id(f) not in seen:
                # first in document order inside its form (not inside a nested iframe document)
                # (nested forms are invalid HTML; the repository's tests pin the browser-like rule that the search of a
                # form ends at the first nested form, so the reference does the same)
                first = None
                for d in walk(f):
                    if tag(d) == 'form':
                        break
                    if tag(d) in ('button', 'input') and low(attr(d, 'type')) == 'submit':
                        first = d
                        break
                seen[id(f)] = first
            if f is not None and seen[id(f)] is e:
                out.add(id(e))
    return out


def ref_indeterminate(els):
    out = set()
    for e in els:
        if not is_html(e):
            continue
        t = tag(e)
        ty = low(attr(e, 'type'))
        if t == 'progress' and attr(e, 'value') is None:
            out.add(id(e))
        elif t == 'input' and ty == 'checkbox' and attr(e, 'indeterminate') is not None:
            out.add(id(e))
        elif t == 'input' and ty == 'radio' and attr(e, 'checked') is None:
            name = attr(e, 'name')
            if not name:
                out.add(id(e))
                continue
            f = form_owner(e)
            scope = f if f is not None else doc_root(e)
            group_checked = False
            for d in ([scope] if tag(scope) == 'input' else []) + list(walk(scope)):
                if d is not e and tag(d) == 'input' and low(attr(d, 'type')) == 'radio' and attr(d, 'name') == name \
                        and attr(d, 'checked') is not None and form_owner(d) is f:
                    group_checked = True
            if not group_checked:
                out.add(id(e))
    return out


PH_TYPES = (None, '', 'text', 'search', 'url', 'tel', 'email', 'password', 'number')


def ref_placeholder(els):
    out = set()
    for e in els:
        if not is_html(e):
            continue
        ph = attr(e, 'placeholder')
        if not ph:
            continue
        if tag(e) == 'input' and low(attr(e, 'type')) in PH_TYPES and not attr(e, 'value'):
            out.add(id(e))
        elif tag(e) == 'textarea':
            content = ''.join(str(n) for n in e.descendants if rm.is_text(n))
            if content in ('', '\n'):
                out.add(id(e))
    return out


def ref_valid_bound(ty, v):
    """Is v a valid HTML number / date / month / week / time / local date-time string?  (hand-written scanners and the
    calendar reference of the C18 harness, not the library's parser)"""
    from harness import c18 as h18
    if v is None:
        return False
    if ty in ('number', 'range'):
        return h18.ref_num(v) is not None
    shape = h18.ref_shape(ty, v)
    if shape is None:
        return False
    yd, f = shape
    if ty == 'week' and h18._legacy53(h18._num(yd), f[0][0] * 10 + f[0][1]):
        return True       # known finding of C18 (week 53 leniency), reported there
    return h18.ref_parse(ty, yd, f) is not None


def ref_range_domain(els):
    out = set()
    for e in els:
        if is_html(e) and tag(e) == 'input' and low(attr(e, 'type')) in RANGE_TYPES:
            ty = low(attr(e, 'type'))
            if ref_valid_bound(ty, attr(e, 'min')) or ref_valid_bound(ty, attr(e, 'max')):
                out.add(id(e))
    return out


CONTROL_TAGS = ('button', 'select', 'textarea', 'fieldset')
TEXT_TYPES = (None, '', 'text', 'search', 'url', 'tel', 'email', 'number', 'password', 'date', 'datetime-local', 'month', 'time',
              'week')


def is_control(e):
    return is_html(e) and (tag(e) in CONTROL_TAGS or (tag(e) == 'input' and low(attr(e, 'type')) != 'hidden'))


def ref_disabled(els):
    """HTML: a control is disabled when it carries `disabled`, or when it is a descendant of a disabled fieldset and not
    inside that fieldset's first legend child; an option also when its parent optgroup is disabled."""
    out = set()
    for e in els:
        if not is_html(e):
            continue
        t = tag(e)
        if (is_control(e) or t in ('optgroup', 'option')) and attr(e, 'disabled') is not None:
            out.add(id(e))
            continue
        if t == 'option':
            p = doc_parent(e)
            if p is not None and tag(p) == 'optgroup' and is_html(p) and attr(p, 'disabled') is not None:
                out.add(id(e))
            continue
        if not is_control(e):
            continue
        child = e
        anc = doc_parent(e)
        while anc is not None:
            if tag(anc) == 'fieldset' and is_html(anc) and attr(anc, 'disabled') is not None:
                if child is e:
                    out.add(id(e))
                    break
                legends = [c for c in anc.contents if rm.is_element(c) and tag(c) == 'legend' and is_html(c)]
                if not (legends and legends[0] is child):
                    out.add(id(e))
                    break
            child = anc
            anc = doc_parent(anc)
    return out


def ref_read_write(els, disabled):
    out = set()
    for e in els:
        if not is_html(e):
            continue
        t = tag(e)
        ce = attr(e, 'contenteditable')
        if ce is not None and (ce == '' or low(ce) == 'true'):
            out.add(id(e))
            continue
        if (t == 'textarea' or (t == 'input' and low(attr(e, 'type')) in TEXT_TYPES)) and attr(e, 'readonly') is None \
                and id(e) not in disabled:
            out.add(id(e))
    return out


def ref_checked(els):
    out = set()
    for e in els:
        if is_html(e) and ((tag(e) == 'input' and low(attr(e, 'type')) in ('checkbox', 'radio') and attr(e, 'checked') is not None)
                           or (tag(e) == 'option' and attr(e, 'selected') is not None)):
            out.add(id(e))
    return out


def _strong(ch):
    import unicodedata
    b = unicodedata.bidirectional(ch)
    return {'L': 'ltr', 'R': 'rtl', 'AL': 'rtl'}.get(b)


def _auto_text(e):
    """First strong directional character among the text of e, skipping bdi/script/style/textarea/iframe children and
    children that carry their own valid dir attribute."""
    for n in e.contents:
        if rm.is_element(n):
            if tag(n) in ('bdi', 'script', 'style', 'textarea', 'iframe') or not is_html(n) or \
                    low(attr(n, 'dir') or '') in ('ltr', 'rtl', 'auto'):
                continue
            d = _auto_text(n)
            if d:
                return d
        elif rm.is_text(n):
            for ch in n:
                d = _strong(ch)
                if d:
                    return d
    return None


def ref_dir(e):
    """Directionality of an HTML element (HTML 'the directionality'), as far as the library documents it."""
    d = low(attr(e, 'dir') or '')
    if d in ('ltr', 'rtl'):
        return d
    root = doc_parent(e) is None
    t = tag(e)
    ty = low(attr(e, 'type')) if t == 'input' else None
    if root and d != 'auto':
        return 'ltr'
    if t == 'input' and ty == 'tel' and d != 'auto':
        return 'ltr'
    if d == 'auto' and (t == 'textarea' or (t == 'input' and ty in ('text', 'search', 'tel', 'url', 'email'))):
        value = ''.join(str(n) for n in e.contents if rm.is_text(n)) if t == 'textarea' else (attr(e, 'value') or '')
        if value:
            for ch in value:
                s = _strong(ch)
                if s:
                    return s
            return 'ltr'
        if root:
            return 'ltr'
        return ref_dir(doc_parent(e))
    if d == 'auto' or t == 'bdi':
        s = _auto_text(e)
        if s:
            return s
        if root:
            return 'ltr'
        return ref_dir(doc_parent(e))
    return ref_dir(doc_parent(e))


def definitions(r, els):
    """Reference definitions of :disabled, :required, :read-write, :checked, :link and :dir()."""
    dis = ref_disabled(els)
    ok = r[':disabled'] == dis
    ok = ok and r[':required'] == set(id(e) for e in els if is_html(e) and tag(e) in ('input', 'select', 'textarea') and
                                     attr(e, 'required') is not None)
    ok = ok and r[':read-write'] == ref_read_write(els, dis)
    ok = ok and r[':checked'] == ref_checked(els)
    ok = ok and r[':link'] == set(id(e) for e in els if is_html(e) and tag(e) in ('a', 'area') and attr(e, 'href') is not None)
    ok = ok and r[':dir(ltr)'] == set(id(e) for e in els if is_html(e) and ref_dir(e) == 'ltr')
    return ok


def doc_laws_ok(di: int) -> bool:
    """
    pre: 0 <= di < ND
    post: _
    """
    # partition / disjointness / implication laws and the reference definitions of :default, :indeterminate,
    # :placeholder-shown and the in/out-of-range domain on one generated (or parsed) forms document
    di = concrete(di)
    with notrace():
        soup = DOCS[di]
        ok, r, els = laws(soup)
        ok = ok and r[':default'] == ref_default(els, r[':checked'])
        ok = ok and r[':indeterminate'] == ref_indeterminate(els)
        ok = ok and r[':placeholder-shown'] == ref_placeholder(els)
        ok = ok and (r[':in-range'] | r[':out-of-range']) == ref_range_domain(els)
        ok = ok and definitions(r, els)
    return ret(ok)


# ---- symbolic attribute content on a compact document ---------------------------------------------------------------

COMPACT = ('<html><body><form id="f"><input id="i1"><input id="r1" type="radio" name="g"><input id="r2" type="radio" name="g" '
           'checked><input id="s1" type="submit"><button id="b1" type="submit"></button><textarea id="ta" placeholder="p">'
           '</textarea></form><input id="r3" type="radio" name="g"><p id="p">x</p><iframe><html><body><input id="r4" '
           'type="radio" name="g"></body></html></iframe></body></html>')
CD = bs4.BeautifulSoup(COMPACT, 'html.parser')
C_I1, C_R1, C_P = (tg.by_id(CD, i) for i in ('i1', 'r1', 'p'))


def _sets(names):
    return {n: set(id(e) for e in SEL[n].select(CD)) for n in names}


C_ELS = rm.descendants(CD)


def sym_type_ok(typev: str, phv: str, valv: str, has_type: bool, has_val: bool) -> bool:
    """
    pre: len(typev) <= 2 and len(phv) <= 1 and len(valv) <= 1
    post: _
    """
    # the first input's type / placeholder / value are symbolic strings
    with tg.inject([(C_I1, 'type', typev if has_type else None), (C_I1, 'placeholder', phv),
                    (C_I1, 'value', valv if has_val else None)]):
        r = _sets([':placeholder-shown', ':read-write', ':read-only', ':in-range', ':out-of-range'])
        ok = r[':placeholder-shown'] == ref_placeholder(C_ELS)
        ok = ok and not (r[':read-write'] & r[':read-only']) and len(r[':read-write'] | r[':read-only']) == len(C_ELS)
        ok = ok and not r[':in-range'] and not r[':out-of-range']
    return ret(ok)


def sym_radio_ok(namev: str, typev: str, r1_checked: bool, has_name: bool) -> bool:
    """
    pre: len(namev) <= 1 and len(typev) <= 1
    post: _
    """
    # a radio button's name and checkedness and the first submit input's type suffix are symbolic
    with tg.inject([(C_R1, 'name', namev if has_name else None), (C_R1, 'checked', '' if r1_checked else None),
                    (C_S1, 'type', 'submit' + typev)]):
        r = _sets([':checked', ':default', ':indeterminate'])
        ok = r[':indeterminate'] == ref_indeterminate(C_ELS)
        ok = ok and r[':default'] == ref_default(C_ELS, r[':checked']) and r[':checked'] <= r[':default']
    return ret(ok)


def sym_dir_ok(dirv: str, hdir: str, has_h: bool) -> bool:
    """
    pre: len(dirv) <= 4 and len(hdir) <= 3
    post: _
    """
    # <p dir> and <html dir> are symbolic: every element is exactly one of :dir(ltr) / :dir(rtl)
    with tg.inject([(C_P, 'dir', dirv), (C_HTML, 'dir', hdir if has_h else None)]):
        r = _sets([':dir(ltr)', ':dir(rtl)'])
        ok = not (r[':dir(ltr)'] & r[':dir(rtl)']) and len(r[':dir(ltr)'] | r[':dir(rtl)']) == len(C_ELS)
    return ret(ok)


C_S1 = tg.by_id(CD, 's1')
C_HTML = CD.find('html')
