"""C18 — date, time and number values are validated and ordered as HTML prescribes.

E1 conditions over the real `Inputs.validate_*`, `Inputs.parse_value` and `CSSMatch.match_range`.
Years, months, days, weeks, hours and minutes are UNBOUNDED symbolic integers wherever the real
code takes integers.
"""
from __future__ import annotations
from vlib.hsupport import *  # noqa: F401,F403
from vlib.hsupport import bs4, cm, cp, ct, sv, ret, part, TIER, html_soup

Inputs = cm.Inputs

# ---------------------------------------------------------------------------------------------
# reference calendar (proleptic Gregorian, ISO 8601), written from the HTML standard's
# "number of days in month" and "week number of the last day" definitions


def ref_leap(y: int) -> bool:
    return y % 400 == 0 or (y % 4 == 0 and y % 100 != 0)


def ref_days_in_month(y: int, m: int) -> int:
    if m == 2:
        return 29 if ref_leap(y) else 28
    if m == 4 or m == 6 or m == 9 or m == 11:
        return 30
    return 31


def ref_p(y: int) -> int:
    return (y + y // 4 - y // 100 + y // 400) % 7


def ref_weeks_in_year(y: int) -> int:
    # a year has 53 ISO weeks iff 1 January is a Thursday or it is a leap year starting on a Wednesday
    return 53 if (ref_p(y) == 4 or ref_p(y - 1) == 3) else 52


# ---------------------------------------------------------------------------------------------


def day_ok(y: int, m: int, d: int) -> bool:
    """
    pre: y >= 1
    post: _
    """
    exp = 1 <= m <= 12 and 1 <= d <= ref_days_in_month(y, m)
    got = Inputs.validate_year(y) and Inputs.validate_month(m) and Inputs.validate_day(y, m, d)
    return ret(bool(got) == exp)


def _legacy53(y: int, w: int) -> bool:
    """Region of the recorded finding: week 53 of a year whose 31 December is a Monday..Wednesday."""
    return w == 53 and 1 <= ref_p(y) <= 3


def week_ok(y: int, w: int) -> bool:
    """
    pre: y >= 1
    pre: not _legacy53(y, w)
    post: _
    """
    exp = 1 <= w <= ref_weeks_in_year(y)
    got = Inputs.validate_week(y, w)
    return ret(bool(got) == exp)


def week53_ok(y: int, w: int) -> bool:
    """
    pre: y >= 1
    pre: _legacy53(y, w)
    post: _
    """
    exp = 1 <= w <= ref_weeks_in_year(y)
    got = Inputs.validate_week(y, w)
    return ret(bool(got) == exp)


def year_hour_min_ok(y: int, h: int, mi: int) -> bool:
    """
    post: _
    """
    return ret(
        bool(Inputs.validate_year(y)) == (y >= 1) and
        bool(Inputs.validate_hour(h)) == (0 <= h <= 23) and
        bool(Inputs.validate_minutes(mi)) == (0 <= mi <= 59)
    )


# ---------------------------------------------------------------------------------------------
# strings -> parsed tuples.  The string is assembled from symbolic digit characters so that the
# solver, not a sample, fills the digits; the shape (which fields, how many year digits) is a
# symbolic index.

TYPES = ['date', 'month', 'week', 'time', 'datetime-local']


def _dig(v: int) -> str:
    return chr(48 + v)


def _num(ds) -> int:
    n = 0
    for d in ds:
        n = n * 10 + d
    return n


def ref_parse(itype: str, yd, f):
    """Reference: yd = year digits (list of ints), f = other two-digit fields (list of (d1, d2))."""
    y = _num(yd)
    v = [d1 * 10 + d2 for d1, d2 in f]
    if itype == 'time':
        h, mi = v
        return (h, mi) if h <= 23 and mi <= 59 else None
    if len(yd) < 4 or y < 1:
        return None
    if itype == 'date':
        m, d = v
        return (y, m, d) if 1 <= m <= 12 and 1 <= d <= ref_days_in_month(y, m) else None
    if itype == 'month':
        (m,) = v
        return (y, m) if 1 <= m <= 12 else None
    if itype == 'week':
        (w,) = v
        return (y, w) if 1 <= w <= ref_weeks_in_year(y) else None
    m, d, h, mi = v
    if 1 <= m <= 12 and 1 <= d <= ref_days_in_month(y, m) and h <= 23 and mi <= 59:
        return (y, m, d, h, mi)
    return None


def render(itype: str, yd, f) -> str:
    ys = ''.join(_dig(d) for d in yd)
    p = [_dig(a) + _dig(b) for a, b in f]
    if itype == 'time':
        return p[0] + ':' + p[1]
    if itype == 'date':
        return ys + '-' + p[0] + '-' + p[1]
    if itype == 'month':
        return ys + '-' + p[0]
    if itype == 'week':
        return ys + '-W' + p[0]
    return ys + '-' + p[0] + '-' + p[1] + 'T' + p[2] + ':' + p[3]


NFIELDS = {'date': 2, 'month': 1, 'week': 1, 'time': 2, 'datetime-local': 4}


def parse_digits_ok(ti: int, ny: int, y0: int, y1: int, y2: int, y3: int, y4: int,
                    a1: int, a2: int, b1: int, b2: int, c1: int, c2: int, d1: int, d2: int) -> bool:
    """
    pre: 0 <= ti < 5
    pre: 3 <= ny <= 5
    pre: 0 <= y0 <= 9 and 0 <= y1 <= 9 and 0 <= y2 <= 9 and 0 <= y3 <= 9 and 0 <= y4 <= 9
    pre: 0 <= a1 <= 9 and 0 <= a2 <= 9 and 0 <= b1 <= 9 and 0 <= b2 <= 9
    pre: 0 <= c1 <= 9 and 0 <= c2 <= 9 and 0 <= d1 <= 9 and 0 <= d2 <= 9
    pre: not (ti == 2 and a1 == 5 and a2 == 3)
    post: _
    """
    # (week 53 is covered by week_ok / week53_ok on unbounded integers)
    itype = TYPES[ti]
    yd = [y0, y1, y2, y3, y4][:ny]
    f = [(a1, a2), (b1, b2), (c1, c2), (d1, d2)][:NFIELDS[itype]]
    s = render(itype, yd, f)
    got = Inputs.parse_value(itype, s)
    exp = ref_parse(itype, yd, f)
    return ret(got == exp)


ALPHA = '0123456789-:TW. \n'


def _legacy53_text(ti: int, s: str) -> bool:
    """s is a week string `<year>-W53` of a year in the region of the recorded finding (see week53_ok)."""
    if TYPES[ti] != 'week' or len(s) < 8 or s[-4:] != '-W53':
        return False
    y = 0
    for ch in s[:-4]:
        if ch not in '0123456789':
            return False
        y = y * 10 + (ord(ch) - 48)
    return _legacy53(y, 53)


def parse_shape_ok(ti: int, s: str) -> bool:
    """
    pre: 0 <= ti < 5
    pre: len(s) <= SLEN
    pre: all(c in ALPHA for c in s)
    pre: not _legacy53_text(ti, s)
    post: _
    """
    # anything that is not digits in the exact HTML shape is invalid (None), never an exception
    itype = TYPES[ti]
    got = Inputs.parse_value(itype, s)
    shape = ref_shape(itype, s)
    if shape is None:
        return ret(got is None)
    yd, f = shape
    return ret(got == ref_parse(itype, yd, f))


SLEN = 7 if TIER == 'quick' else 11


def ref_shape(itype: str, s: str):
    """Hand-written scanner for the HTML microsyntax shapes; returns (year digits, fields) or None."""
    def two(t):
        if len(t) == 2 and t[0] in '0123456789' and t[1] in '0123456789':
            return (ord(t[0]) - 48, ord(t[1]) - 48)
        return None

    if itype == 'time':
        if len(s) != 5 or s[2] != ':':
            return None
        a, b = two(s[0:2]), two(s[3:5])
        return ([], [a, b]) if a and b else None
    i = 0
    while i < len(s) and s[i] in '0123456789':
        i += 1
    if i < 4:
        return None
    yd = [ord(c) - 48 for c in s[:i]]
    rest = s[i:]
    if itype == 'month':
        if len(rest) != 3 or rest[0] != '-':
            return None
        a = two(rest[1:3])
        return (yd, [a]) if a else None
    if itype == 'week':
        if len(rest) != 4 or rest[0:2] != '-W':
            return None
        a = two(rest[2:4])
        return (yd, [a]) if a else None
    if itype == 'date':
        if len(rest) != 6 or rest[0] != '-' or rest[3] != '-':
            return None
        a, b = two(rest[1:3]), two(rest[4:6])
        return (yd, [a, b]) if a and b else None
    if len(rest) != 12 or rest[0] != '-' or rest[3] != '-' or rest[6] != 'T' or rest[9] != ':':
        return None
    a, b, c, d = two(rest[1:3]), two(rest[4:6]), two(rest[7:9]), two(rest[10:12])
    return (yd, [a, b, c, d]) if a and b and c and d else None


# ---------------------------------------------------------------------------------------------
# ordering: in-range / out-of-range on a one-input tree


def _input(itype, mn, mx, val):
    soup = html_soup()
    el = soup.new_tag('input')
    soup.append(el)
    el.attrs['type'] = itype
    if mn is not None:
        el.attrs['min'] = mn
    if mx is not None:
        el.attrs['max'] = mx
    if val is not None:
        el.attrs['value'] = val
    return soup, el


IN_RANGE = sv.compile(':in-range')
OUT_RANGE = sv.compile(':out-of-range')


def ref_out_of_range(itype, mn, mx, v):
    """mn/mx/v are parsed tuples or None."""
    if mn is None and mx is None:
        return None  # neither pseudo-class applies
    if v is None:
        return False
    if itype == 'time' and mn is not None and mx is not None and mn > mx:
        return mx < v < mn
    if mn is not None and v < mn:
        return True
    if mx is not None and v > mx:
        return True
    return False


def time_range_ok(hmn: int, mmn: int, hmx: int, mmx: int, hv: int, mv: int,
                  has_mn: bool, has_mx: bool, has_v: bool) -> bool:
    """
    pre: 0 <= hmn <= 29 and 0 <= hmx <= 29 and 0 <= hv <= 29
    pre: 0 <= mmn <= 69 and 0 <= mmx <= 69 and 0 <= mv <= 69
    post: _
    """
    def two(n):
        return _dig(n // 10) + _dig(n % 10)

    def val(h, m):
        return (h, m) if h <= 23 and m <= 59 else None
    mn = two(hmn) + ':' + two(mmn) if has_mn else None
    mx = two(hmx) + ':' + two(mmx) if has_mx else None
    v = two(hv) + ':' + two(mv) if has_v else None
    soup, el = _input('time', mn, mx, v)
    exp = ref_out_of_range('time', val(hmn, mmn) if has_mn else None, val(hmx, mmx) if has_mx else None,
                           val(hv, mv) if has_v else None)
    is_in = IN_RANGE.match(el)
    is_out = OUT_RANGE.match(el)
    if exp is None:
        return ret(not is_in and not is_out)
    return ret(is_out == exp and is_in == (not exp))


def date_range_ok(ymn: int, mmn: int, dmn: int, ymx: int, mmx: int, dmx: int, yv: int, mv: int, dv: int,
                  ti: int, has_mn: bool, has_mx: bool) -> bool:
    """
    pre: 1000 <= ymn <= 9999 and 1000 <= ymx <= 9999 and 1000 <= yv <= 9999
    pre: 1 <= mmn <= 12 and 1 <= mmx <= 12 and 1 <= mv <= 12
    pre: 1 <= dmn <= 28 and 1 <= dmx <= 28 and 1 <= dv <= 28
    pre: 0 <= ti <= 2
    post: _
    """
    # valid dates / months / weeks compare in calendar order (4-digit years; day/week <= 28 keeps every triple valid)
    itype = ('date', 'month', 'week')[ti]

    def two(n):
        return _dig(n // 10) + _dig(n % 10)

    def four(n):
        return _dig(n // 1000) + _dig(n // 100 % 10) + _dig(n // 10 % 10) + _dig(n % 10)

    def txt(y, m, d):
        if itype == 'date':
            return four(y) + '-' + two(m) + '-' + two(d)
        if itype == 'month':
            return four(y) + '-' + two(m)
        return four(y) + '-W' + two(d)

    def tup(y, m, d):
        if itype == 'date':
            return (y, m, d)
        if itype == 'month':
            return (y, m)
        return (y, d)
    soup, el = _input(itype, txt(ymn, mmn, dmn) if has_mn else None, txt(ymx, mmx, dmx) if has_mx else None,
                      txt(yv, mv, dv))
    exp = ref_out_of_range(itype, tup(ymn, mmn, dmn) if has_mn else None, tup(ymx, mmx, dmx) if has_mx else None,
                           tup(yv, mv, dv))
    is_in = IN_RANGE.match(el)
    is_out = OUT_RANGE.match(el)
    if exp is None:
        return ret(not is_in and not is_out)
    return ret(is_out == exp and is_in == (not exp))


NUMS = part(['0', '1', '-1', '1.5', '-0.5', '.5', '10', '2', '-2', '007', '1e3', '', 'x', '1.', '+1', ' 1', '--1',
             '0.0', '-0', '9.99', '1e1', '1E+2', '1e-1', 'e1', '1e', '1e+', '.e1', '-.5e1'])
NN = len(NUMS)
ALLNUMS = ['0', '1', '-1', '1.5', '-0.5', '.5', '10', '2', '007', '1e3', '', 'x', '1.', '+1', '-0', '2E-1', '1e', '5e+1']


def ref_num(s):
    """HTML "valid floating-point number": -? (digits (. digits)? | . digits) ([eE] [-+]? digits)?"""
    if s is None:
        return None
    D = '0123456789'
    i, n = 0, len(s)
    if i < n and s[i] == '-':
        i += 1
    j = i
    while j < n and s[j] in D:
        j += 1
    had_int = j > i
    i = j
    if i < n and s[i] == '.':
        j = i + 1
        while j < n and s[j] in D:
            j += 1
        if j == i + 1:
            return None
        i = j
    elif not had_int:
        return None
    if i < n and s[i] in 'eE':
        i += 1
        if i < n and s[i] in '+-':
            i += 1
        j = i
        while j < n and s[j] in D:
            j += 1
        if j == i:
            return None
        i = j
    if i != n:
        return None
    return (float(s),)


def number_range_ok(i: int, j: int, k: int, ti: int) -> bool:
    """
    pre: 0 <= i < NN
    pre: 0 <= j < len(ALLNUMS) + 1
    pre: 0 <= k < len(ALLNUMS) + 1
    pre: 0 <= ti <= 1
    post: _
    """
    itype = ('number', 'range')[ti]
    mn = NUMS[i]
    mx = ALLNUMS[j] if j < len(ALLNUMS) else None
    v = ALLNUMS[k] if k < len(ALLNUMS) else None
    soup, el = _input(itype, mn, mx, v)
    exp = ref_out_of_range(itype, ref_num(mn), ref_num(mx), ref_num(v))
    is_in = IN_RANGE.match(el)
    is_out = OUT_RANGE.match(el)
    if exp is None:
        return ret(not is_in and not is_out)
    return ret(is_out == exp and is_in == (not exp))


def datetime_range_ok(y1: int, mo1: int, d1: int, h1: int, mi1: int, y2: int, mo2: int, d2: int, h2: int, mi2: int,
                      as_max: bool) -> bool:
    """
    pre: 1000 <= y1 <= 9999 and 1000 <= y2 <= 9999
    pre: 1 <= mo1 <= 12 and 1 <= mo2 <= 12 and 1 <= d1 <= 28 and 1 <= d2 <= 28
    pre: 0 <= h1 <= 23 and 0 <= h2 <= 23 and 0 <= mi1 <= 59 and 0 <= mi2 <= 59
    post: _
    """
    # datetime-local: bound (y1..mi1) and value (y2..mi2) compare field by field in calendar order
    def two(n):
        return _dig(n // 10) + _dig(n % 10)

    def four(n):
        return _dig(n // 1000) + _dig(n // 100 % 10) + _dig(n // 10 % 10) + _dig(n % 10)

    def txt(y, mo, d, h, mi):
        return four(y) + '-' + two(mo) + '-' + two(d) + 'T' + two(h) + ':' + two(mi)
    bound = (y1, mo1, d1, h1, mi1)
    value = (y2, mo2, d2, h2, mi2)
    soup, el = _input('datetime-local', None if as_max else txt(*bound), txt(*bound) if as_max else None, txt(*value))
    exp = ref_out_of_range('datetime-local', None if as_max else bound, bound if as_max else None, value)
    is_in = IN_RANGE.match(el)
    is_out = OUT_RANGE.match(el)
    return ret(is_out == exp and is_in == (not exp))


R53 = part([r for r in range(400) if ref_weeks_in_year(2000 + r) == 53])    # the Gregorian calendar repeats every 400 years
N53 = len(R53)


def week_order_ok(ri: int, q: int, y2: int, w2: int, as_max: bool, swap: bool) -> bool:
    """
    pre: 0 <= ri < N53
    pre: 3 <= q <= 24
    pre: 1000 <= y2 <= 9999
    pre: 1 <= w2 <= 52
    post: _
    """
    # a genuine week 53 (year = 400 q + r, r one of the 71 residues with 53 ISO weeks) against a symbolic week 1..52 of a
    # symbolic year: week values compare as (year, week), in particular W53 < W01 of the following year
    y1 = 400 * q + R53[concrete(ri)]

    def two(n):
        return _dig(n // 10) + _dig(n % 10)

    def four(n):
        return _dig(n // 1000) + _dig(n // 100 % 10) + _dig(n // 10 % 10) + _dig(n % 10)
    bound, value = (y1, 53), (y2, w2)
    if swap:
        bound, value = value, bound
    b = four(bound[0]) + '-W' + two(bound[1])
    v = four(value[0]) + '-W' + two(value[1])
    soup, el = _input('week', None if as_max else b, b if as_max else None, v)
    exp = ref_out_of_range('week', None if as_max else bound, bound if as_max else None, value)
    return ret(OUT_RANGE.match(el) == exp and IN_RANGE.match(el) == (not exp))


def week_parse_order_ok(ri: int, q: int, a: int, b: int, c: int, d: int, wt: int, wu: int) -> bool:
    """
    pre: 0 <= ri < N53
    pre: 3 <= q <= 24
    pre: 1 <= a <= 9 and 0 <= b <= 9 and 0 <= c <= 9 and 0 <= d <= 9
    pre: 0 <= wt <= 5 and 0 <= wu <= 9 and 1 <= wt * 10 + wu <= 52
    post: _
    """
    # the real parse_value is strictly monotone from (year, week) to whatever it returns: a genuine week 53 (concrete
    # text) against a week whose six digits are symbolic
    y1 = 400 * concrete(q) + R53[concrete(ri)]
    p1 = Inputs.parse_value('week', '%04d-W53' % y1)
    p2 = Inputs.parse_value('week', _dig(a) + _dig(b) + _dig(c) + _dig(d) + '-W' + _dig(wt) + _dig(wu))
    y2 = a * 1000 + b * 100 + c * 10 + d
    w2 = wt * 10 + wu
    if p1 is None or p2 is None:
        return ret(False)
    return ret((p1 < p2) == ((y1, 53) < (y2, w2)) and (p2 < p1) == ((y2, w2) < (y1, 53)))


def parse_week53_ok(a: int, b: int, c: int, d: int) -> bool:
    """
    pre: 1 <= a <= 9 and 0 <= b <= 9 and 0 <= c <= 9 and 0 <= d <= 9
    pre: _legacy53(a * 1000 + b * 100 + c * 10 + d, 53)
    post: _
    """
    # exactly the region parse_shape_ok leaves out: `<year>-W53` for a year of the recorded finding, through the string parser
    return ret(Inputs.parse_value('week', _dig(a) + _dig(b) + _dig(c) + _dig(d) + '-W53') is None)
