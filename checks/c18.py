"""C18 — dates, times, numbers."""
import z3
from vlib.e1 import Cond
from vlib import rx2smt as rx

FUNCS = ['soupsieve.css_match.Inputs.validate_day', 'Inputs.validate_week', 'Inputs.validate_month',
         'Inputs.validate_year', 'Inputs.validate_hour', 'Inputs.validate_minutes', 'Inputs.parse_value',
         'soupsieve.css_match.RE_NUM/RE_TIME/RE_MONTH/RE_WEEK/RE_DATE/RE_DATETIME', 'CSSMatch.match_range',
         'soupsieve.SoupSieve.match (:in-range, :out-of-range)']

CONDS = [
    Cond('day_ok', 'validate_year & validate_month & validate_day == proleptic Gregorian days-in-month rule',
         'year: every integer >= 1 (unbounded); month, day: every integer', timeout={'quick': 60, 'thorough': 300},
         expect_exhaustive=True),
    Cond('week_ok', 'validate_week(y, w) == ISO-8601 weeks-in-year rule (52/53 by weekday of 1 January / leap year)',
         'year: every integer >= 1 (unbounded); week: every integer, except (w = 53 and 31 December on Mon..Wed)', timeout={'quick': 60, 'thorough': 300},
         expect_exhaustive=True),
    Cond('week53_ok', 'validate_week(y, 53) for years whose 31 December is Monday..Wednesday (region of the recorded '
         'finding, kept separate so that week_ok can still be exhausted)', 'year: every integer >= 1',
         timeout={'quick': 30, 'thorough': 120}, twin=False),
    Cond('year_hour_min_ok', 'validate_year/hour/minutes == y>=1, 0..23, 0..59', 'every integer',
         timeout={'quick': 30, 'thorough': 120}, expect_exhaustive=True),
    Cond('parse_digits_ok',
         'Inputs.parse_value(type, s) == reference (validity and parsed tuple) for every string of the five date/time '
         'shapes whose digits are symbolic',
         'year of 3, 4 or 5 symbolic digits (3 must be rejected), every two-digit field 00..99', 
         timeout={'quick': 100, 'thorough': 900}),
    Cond('parse_shape_ok',
         'Inputs.parse_value(type, s) for arbitrary s over "0-9 - : T W . space": None unless s has the exact HTML shape, '
         'then the reference value; never an exception',
         'len(s) <= 7 quick / 11 thorough', timeout={'quick': 100, 'thorough': 900}),
    Cond('time_range_ok',
         ':in-range / :out-of-range on <input type=time> with symbolic min, max, value (each present or absent, valid or '
         'invalid): ordering incl. wrap-around when min > max; invalid or missing value never out of range',
         'hours 0..29, minutes 0..69 (so that invalid fields are reachable)', timeout={'quick': 100, 'thorough': 900}),
    Cond('date_range_ok', ':in-range / :out-of-range for date, month, week inputs == calendar order of the tuples',
         'years 1000..9999, months 1..12, day/week 1..28', timeout={'quick': 100, 'thorough': 900}),
    Cond('datetime_range_ok', 'datetime-local: symbolic bound (as min or as max) and value compare field by field in calendar '
         'order', 'years 1000..9999, months 1..12, days 1..28, hours 0..23, minutes 0..59', timeout={'quick': 100, 'thorough': 900}),
    Cond('week_order_ok', 'week inputs: a genuine week 53 against a symbolic week of a symbolic year, as bound or as value, compare as (year, week)',
         'week-53 years 1200..9999 (71 residues mod 400 by index x symbolic cycle), other year 1000..9999, week 1..52', timeout={'quick': 100, 'thorough': 900}),
    Cond('week_parse_order_ok', 'the real parse_value is strictly monotone from (year, week) to its result: a genuine week 53 against six '
         'symbolic digits', 'week-53 years 1200..9999 by index, other year 1000..9999, week 01..52', timeout={'quick': 90, 'thorough': 900},
         parts={'quick': 2, 'thorough': 8}),
    Cond('parse_week53_ok', 'the region parse_shape_ok excludes: <year>-W53 through parse_value for the years of the recorded finding '
         '(prints the KNOWN-FINDING line; the string parser adds nothing to it)', 'four symbolic year digits', timeout={'quick': 40, 'thorough': 60}, twin=False),
    Cond('number_range_ok', ':in-range / :out-of-range for number/range inputs == numeric order; validity == HTML '
         'valid floating-point number (incl. exponent, leading dot; not "1.", "+1", " 1")',
         'min, max, value from pools of 28 / 18 / 18 spellings (enumerated by symbolic index)',
         timeout={'quick': 100, 'thorough': 600}, parts={'quick': 4, 'thorough': 8}),
]


REF_PY = {
    'RE_NUM': r'-?(?:[0-9]+(?:\.[0-9]+)?|\.[0-9]+)(?:[eE][-+]?[0-9]+)?', 'RE_TIME': r'[0-9]{2}:[0-9]{2}',
    'RE_MONTH': r'[0-9]{4,}-[0-9]{2}', 'RE_WEEK': r'[0-9]{4,}-W[0-9]{2}', 'RE_DATE': r'[0-9]{4,}-[0-9]{2}-[0-9]{2}',
    'RE_DATETIME': r'[0-9]{4,}-[0-9]{2}-[0-9]{2}T[0-9]{2}:[0-9]{2}',
}


def shape_lemmas(ctx):
    """E2: each live value pattern accepts exactly the HTML microsyntax shape (unbounded strings, z3 regex theory)."""
    from soupsieve import css_match as cm
    D = rx.rng(48, 57)
    d2 = z3.Loop(D, 2, 2)
    y = z3.Concat(z3.Loop(D, 4, 4), z3.Star(D))

    def L(s):
        return z3.Re(rx.lit(s))
    num = z3.Concat(z3.Option(L('-')), z3.Union(z3.Concat(z3.Plus(D), z3.Option(z3.Concat(L('.'), z3.Plus(D)))),
                                                z3.Concat(L('.'), z3.Plus(D))),
                    z3.Option(z3.Concat(z3.Union(L('e'), L('E')), z3.Option(z3.Union(L('+'), L('-'))), z3.Plus(D))))
    refs = {
        'RE_NUM': num, 'RE_TIME': z3.Concat(d2, L(':'), d2), 'RE_MONTH': z3.Concat(y, L('-'), d2),
        'RE_WEEK': z3.Concat(y, L('-W'), d2), 'RE_DATE': z3.Concat(y, L('-'), d2, L('-'), d2),
        'RE_DATETIME': z3.Concat(y, L('-'), d2, L('-'), d2, L('T'), d2, L(':'), d2),
    }
    x = z3.String('x')
    for name, ref in refs.items():
        pat = getattr(cm, name, None)
        if not hasattr(pat, 'pattern'):
            # the pattern object is gone (the validators were restructured): the lemma has no subject; the shape is then
            # decided by parse_shape_ok / parse_digits_ok alone
            ctx.obligation(engine='E2/z3', name=f'{name}: no such pattern in css_match any more', verdict='not_applicable')
            continue
        tr = rx.Translation(pat)
        lang = tr.prefix_language()      # the code uses pattern.match(value)
        s = z3.Solver()
        s.add(z3.InRe(x, z3.Union(z3.Intersect(lang, z3.Complement(ref)), z3.Intersect(ref, z3.Complement(lang)))))
        r = ctx.z3_check(s, name, 30000)
        ob = dict(engine='E2/z3', name=f'{name} {pat.pattern!r} (as used with .match) == HTML microsyntax shape, unbounded strings',
                  verdict={'unsat': 'exhaustive', 'sat': 'counterexample'}.get(r, 'inconclusive'), inexact=tr.inexact[:2])
        if r == 'sat':
            val = rx.decode(s.model().eval(x, model_completion=True))
            ob['model'] = val
            real = pat.match(val) is not None
            shape = __import__('re').fullmatch(REF_PY[name], val) is not None
            ctx.report(dict(engine='E2', fn='shape_lemma', args=[name, val], args_repr=[repr(name), repr(val)],
                            detail=f'{name}.match({val!r}) is {real}; the HTML shape says {shape}'), real != shape)
        ctx.obligation(**ob)
        ctx.functions.add(f'soupsieve.css_match.{name}')


def replay(rec):
    from soupsieve import css_match as cm
    name, val = rec['args']
    real = getattr(cm, name).match(val) is not None
    shape = __import__('re').fullmatch(REF_PY[name], val) is not None
    return real != shape, f'{name}.match({val!r}) -> {real}; HTML shape: {shape}'


def run(ctx):
    ctx.lemma(shape_lemmas, 'shape_lemmas')
    ctx.assume('reference calendar: p(y) = (y + y//4 - y//100 + y//400) mod 7; 53 weeks iff p(y)=4 or p(y-1)=3 '
               '(ISO 8601 / HTML "week number of the last day")',
               'CrossHair 0.0.110 path exhaustion and its int/str/regex models are trusted for "exhaustive" verdicts; '
               'counterexamples are replayed on the real code',
               'util.lower lru_cache bypassed (pure function)')
    ctx.run_e1('harness.c18', CONDS, FUNCS)
