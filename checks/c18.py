"""C18 — dates, times, numbers."""
from vlib.e1 import Cond

FUNCS = ['soupsieve.css_match.Inputs.validate_day', 'Inputs.validate_week', 'Inputs.validate_month',
         'Inputs.validate_year', 'Inputs.validate_hour', 'Inputs.validate_minutes', 'Inputs.parse_value',
         'soupsieve.css_match.RE_NUM/RE_TIME/RE_MONTH/RE_WEEK/RE_DATE/RE_DATETIME', 'CSSMatch.match_range',
         'soupsieve.SoupSieve.match (:in-range, :out-of-range)']

CONDS = [
    Cond('day_ok', 'validate_year & validate_month & validate_day == proleptic Gregorian days-in-month rule',
         'year: every integer >= 1 (unbounded); month, day: every integer', timeout={'quick': 60, 'thorough': 300},
         expect_exhaustive=True),
    Cond('week_ok', 'validate_week(y, w) == ISO-8601 weeks-in-year rule (52/53 by weekday of 1 January / leap year)',
         'year: every integer >= 1 (unbounded); week: every integer, except (w = 53 and 31 December on Mon..Wed)', timeout={'quick': 60, 'thorough': 300},
         expect_exhaustive=True),
    Cond('week53_ok', 'validate_week(y, 53) for years whose 31 December is Monday..Wednesday (region of the recorded '
         'finding, kept separate so that week_ok can still be exhausted)', 'year: every integer >= 1',
         timeout={'quick': 30, 'thorough': 120}, twin=False),
    Cond('year_hour_min_ok', 'validate_year/hour/minutes == y>=1, 0..23, 0..59', 'every integer',
         timeout={'quick': 30, 'thorough': 120}, expect_exhaustive=True),
    Cond('parse_digits_ok',
         'Inputs.parse_value(type, s) == reference (validity and parsed tuple) for every string of the five date/time '
         'shapes whose digits are symbolic',
         'year of 3, 4 or 5 symbolic digits (3 must be rejected), every two-digit field 00..99', 
         timeout={'quick': 100, 'thorough': 900}),
    Cond('parse_shape_ok',
         'Inputs.parse_value(type, s) for arbitrary s over "0-9 - : T W . space": None unless s has the exact HTML shape, '
         'then the reference value; never an exception',
         'len(s) <= 7 quick / 11 thorough', timeout={'quick': 100, 'thorough': 900}),
    Cond('time_range_ok',
         ':in-range / :out-of-range on <input type=time> with symbolic min, max, value (each present or absent, valid or '
         'invalid): ordering incl. wrap-around when min > max; invalid or missing value never out of range',
         'hours 0..29, minutes 0..69 (so that invalid fields are reachable)', timeout={'quick': 100, 'thorough': 900}),
    Cond('date_range_ok', ':in-range / :out-of-range for date, month, week inputs == calendar order of the tuples',
         'years 1000..9999, months 1..12, day/week 1..28', timeout={'quick': 100, 'thorough': 900}),
    Cond('number_range_ok', ':in-range / :out-of-range for number/range inputs == numeric order; validity == HTML '
         'valid floating-point number (incl. exponent, leading dot; not "1.", "+1", " 1")',
         'min, max, value from pools of 28 / 18 / 18 spellings (enumerated by symbolic index)',
         timeout={'quick': 100, 'thorough': 600}, parts={'quick': 4, 'thorough': 8}),
]


def run(ctx):
    ctx.assume('reference calendar: p(y) = (y + y//4 - y//100 + y//400) mod 7; 53 weeks iff p(y)=4 or p(y-1)=3 '
               '(ISO 8601 / HTML "week number of the last day")',
               'CrossHair 0.0.110 path exhaustion and its int/str/regex models are trusted for "exhaustive" verdicts; '
               'counterexamples are replayed on the real code',
               'util.lower lru_cache bypassed (pure function)')
    ctx.run_e1('harness.c18', CONDS, FUNCS)
