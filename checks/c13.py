"""C13 — :lang()."""
from vlib.e1 import Cond

FUNCS = ['soupsieve.css_match.CSSMatch.extended_language_filter', 'soupsieve.css_match.RE_WILD_STRIP',
         'CSSMatch.match_lang', 'soupsieve.css_parser.CSSParser.parse_pseudo_lang', 'SoupSieve.select/match']

CONDS = [
    Cond('filter_ok', 'real extended_language_filter(range, tag) == RFC 4647 3.3.2 reference (+ empty-range / "*" rules)',
         'range: 0..3 subtags, each "*" or a symbolic string; tag: 0..4 symbolic subtags; subtag length 1..2 quick / 1..3 '
         'thorough over {a, b, 1, A}; well-formed by construction',
         timeout={'quick': 110, 'thorough': 900}),
    Cond('filter_enum_ok', 'the same comparison for every range of 1..3 and every tag of 1..4 subtags over {de, u, co, x, DE, a1, *} '
         '(singletons, wildcard, case): bounded enumeration by symbolic block index', '400 ranges x 781 tags',
         timeout={'quick': 100, 'thorough': 300}, parts={'quick': 2, 'thorough': 2}),
    Cond('inherit_ok', 'language determined by the real matcher (via :lang(en), :lang(""), :lang("*"), :lang(fr,"en-*") '
         'with select and match) == reference: nearest lang / xml:lang incl. explicitly empty, else <meta> pragma, else '
         'unknown; iframe content is its own document in HTML/XHTML',
         'values {absent, en, fr, "", EN-us} on html, body, div, p, iframe-inner p; meta {absent, fr, ""}; HTML, XHTML, XML and two mixed-namespace trees (XML root with embedded XHTML elements; XHTML with '
         'foreign elements on the chain; the inapplicable lang / xml:lang spelling carries a decoy value); '
         'all 10 elements of the skeleton (enumerated by symbolic index, body native)',
         timeout={'quick': 110, 'thorough': 600}, parts={'quick': 12, 'thorough': 14}),
    Cond('range_list_ok', 'real match_lang(el, ([r1, r2],)) on <p lang=tag> == ref(r1) or ref(r2)',
         'r1 = a-(b|*), r2 = (c|*), tag of 0..2 subtags; same subtag bounds', timeout={'quick': 110, 'thorough': 600}),
]


def run(ctx):
    ctx.assume('language tags and ranges are restricted to well-formed subtag structure over a 4-letter alphabet plus '
               '"-" and "*" (the algorithm compares subtags for equality and length only)',
               'skeleton has no <meta> inside the iframe document',
               'util.lower lru_cache bypassed (pure function)',
               'CrossHair 0.0.110 models trusted for "exhaustive"; counterexamples replayed on the real code')
    ctx.run_e1('harness.c13', CONDS, FUNCS)
