"""C07 — selector parsing time is polynomially bounded.

E2: every loop of every live regular expression is examined with z3's regex/sequence theory for the two
causes of exponential backtracking,
  Q1  the loop body R is not a code:   exists x, z, t:  x in R, x.z in R, z != '', z.t in R*, t in R*
  Q2  two alternatives of a loop body overlap: exists w in L(Bi) & L(Bj), i != j
  Q3  a concatenation P.Q inside the body splits two ways: exists u, v, w: u in P, u.v in P, v != '', v.w in Q, w in Q
with look-arounds dropped from R (over-approximation: `unsat` is sound for the bounded witness size).
A `sat` model is a pump string; the attack `left-context . pump^n . poison` is then timed on the REAL
compiled pattern and, for parser tokens, on soupsieve.compile itself.  Only measured super-polynomial
growth within 64 characters is reported.
"""
from __future__ import annotations
import json
import re
import time
import z3

from vlib import rx2smt as rx, rxlive

WITNESS_LEN = {'quick': 6, 'thorough': 10}
POISON = ['\x00', '!', '"', '\n', '\\', ')']
EXTRA_WITNESSES = {'quick': 4, 'thorough': 8}


class _Timeout(Exception):
    pass


def _alarm(signum, frame):
    raise _Timeout()


def timed_call(fn, limit):
    """Wall time of fn() with a SIGALRM cut-off (sre polls for signals, so a runaway match is interrupted)."""
    import signal
    old = signal.signal(signal.SIGALRM, _alarm)
    signal.setitimer(signal.ITIMER_REAL, limit)
    t = time.perf_counter()
    try:
        fn()
        return time.perf_counter() - t
    except _Timeout:
        return limit * 10
    except Exception:  # noqa: BLE001
        return time.perf_counter() - t
    finally:
        signal.setitimer(signal.ITIMER_REAL, 0)
        signal.signal(signal.SIGALRM, old)


def time_match(src, flags, s, limit):
    p = re.compile(src, flags)
    return timed_call(lambda: p.match(s), limit)


def time_compile(s, limit):
    from soupsieve import css_parser as cp
    return timed_call(lambda: cp.CSSParser(s).process_selectors(), limit)


def growth(make, runner, limit=2.0):
    """Measure runner(make(n)) for growing n while len <= 64.  Returns (exploded, series)."""
    series = []
    for n in (6, 10, 14, 18, 22, 26, 30):
        s = make(n)
        if len(s) > 64:
            break
        t = runner(s, limit)
        series.append((n, len(s), round(t, 4)))
        if t >= limit:
            break
    exploded = False
    if series and series[-1][2] >= 1.0:
        # super-polynomial: each +4 pumps multiplies the time by >= 4 over the last steps that took measurable time
        meas = [x for x in series if x[2] > 0.002]
        if len(meas) >= 2:
            ratios = [meas[i + 1][2] / meas[i][2] for i in range(len(meas) - 1)]
            exploded = all(r >= 4 for r in ratios[-2:])
        else:
            exploded = True
    return exploded, series


def left_context(tr, path):
    """z3 regex for what precedes the loop at `path` inside the pattern (look-arounds dropped)."""
    import re._constants as c
    nodes = list(tr.tree)
    parts = []
    path = list(path)
    while path:
        k = path.pop(0)
        parts.append(tr.plain(nodes[:k], drop=True))
        op, arg = nodes[k]
        if not path:
            break
        if op is c.BRANCH:
            assert path.pop(0) == '|'
            nodes = list(arg[1][path.pop(0)])
        elif op is c.SUBPATTERN:
            nodes = list(arg[3])
        elif op in (c.MAX_REPEAT, c.MIN_REPEAT):
            assert path.pop(0) == '*'
            nodes = list(arg[2])
        elif op in (c.ASSERT, c.ASSERT_NOT):
            assert path.pop(0) == '?'
            nodes = list(arg[1])
        else:
            raise ValueError('bad path')
    return rx.concat(parts)


def _splits(body):
    """Every (prefix, rest) split of every concatenation at any depth inside a loop body."""
    import re._constants as c
    out = []

    def walk(nodes):
        nodes = list(nodes)
        for i in range(1, len(nodes)):
            out.append((nodes[:i], nodes[i:]))
        for op, arg in nodes:
            if op is c.BRANCH:
                for a in arg[1]:
                    walk(a)
            elif op is c.SUBPATTERN:
                walk(arg[3])
            elif op in (c.MAX_REPEAT, c.MIN_REPEAT):
                walk(arg[2])
    walk(body)
    return out


def analyse_pattern(ctx, name, pat, wl, api_wrap=None):
    tr = rx.Translation(pat)
    found = []
    for path, lo, hi, body in tr.loops():
        R = tr.plain(body, drop=True)
        Rs = z3.Star(R)
        x, z, t = z3.String('x'), z3.String('z'), z3.String('t')
        s = z3.Solver()
        s.add(z3.InRe(x, R), z3.InRe(z3.Concat(x, z), R), z3.Length(z) > 0, z3.InRe(z3.Concat(z, t), Rs),
              z3.InRe(t, Rs), z3.Length(x) + z3.Length(z) + z3.Length(t) <= wl)
        r = ctx.z3_check(s, f'{name}{path} Q1', 30000)
        rec = {'pattern': name, 'loop': str(path), 'repeat': [lo, str(hi)], 'Q1': r}
        pumps = []
        if r == 'sat':
            m = s.model()
            xs, zs, ts = (rx.decode(m.eval(v, model_completion=True)) for v in (x, z, t))
            rec['Q1_witness'] = [xs, zs, ts]
            pumps.append(xs + zs + ts if ts else xs + zs)
            pumps.append(xs)
            # one witness per loop hides the others: ask again with the first iteration of every earlier witness excluded
            # (a loop body may be ambiguous in a benign and in an explosive way at the same time)
            seen_x = [xs]
            for k in range(EXTRA_WITNESSES.get(ctx.tier, 3)):
                s.add(x != rx.lit(seen_x[-1]))
                if len(seen_x[-1]) >= 1:
                    s.add(z3.Not(z3.And(z3.PrefixOf(rx.lit(seen_x[-1][:1]), x), z3.Length(x) == len(seen_x[-1]),
                                        z3.SuffixOf(rx.lit(seen_x[-1][1:]), x))) if len(seen_x[-1]) > 1 else x != rx.lit(seen_x[-1]))
                rk = ctx.z3_check(s, f'{name}{path} Q1 more {k}', 15000)
                if rk != 'sat':
                    break
                m = s.model()
                xs2, zs2, ts2 = (rx.decode(m.eval(v, model_completion=True)) for v in (x, z, t))
                rec.setdefault('Q1_more_witnesses', []).append([xs2, zs2, ts2])
                pumps.append(xs2 + zs2 + ts2 if ts2 else xs2 + zs2)
                seen_x.append(xs2)
        # a witness x.z with z repeatable inside ONE iteration (x.z^j still in R) multiplies the number of parses per pump
        for (xw, zw, tw) in ([rec['Q1_witness']] if 'Q1_witness' in rec else []) + rec.get('Q1_more_witnesses', []):
            for j in (5, 3, 2):
                cand = xw + zw * j
                if len(cand) > 12:
                    continue
                sj = z3.Solver()
                sj.add(z3.InRe(rx.lit(cand), R))
                if ctx.z3_check(sj, f'{name}{path} Q1 stretch', 5000) == 'sat':
                    pumps.insert(0, cand)
                    rec.setdefault('Q1_stretched', []).append(cand)
                    break
        # Q2: overlapping alternatives directly inside the loop body
        import re._constants as c
        alts = None
        b = list(body)
        while len(b) == 1 and b[0][0] is c.SUBPATTERN:
            b = list(b[0][1][3])
        if len(b) == 1 and b[0][0] is c.BRANCH:
            alts = b[0][1][1]
        elif len(b) == 1 and b[0][0] is c.IN:
            alts = None
        if alts:
            for i in range(len(alts)):
                for j in range(i + 1, len(alts)):
                    w = z3.String('w')
                    s2 = z3.Solver()
                    s2.add(z3.InRe(w, tr.plain(alts[i], drop=True)), z3.InRe(w, tr.plain(alts[j], drop=True)),
                           z3.Length(w) > 0, z3.Length(w) <= wl)
                    r2 = ctx.z3_check(s2, f'{name}{path} Q2 {i},{j}', 30000)
                    rec[f'Q2_{i}_{j}'] = r2
                    if r2 == 'sat':
                        ws = rx.decode(s2.model()[w])
                        rec[f'Q2_{i}_{j}_witness'] = ws
                        pumps.append(ws)
        # Q3: inside the body, a concatenation P.Q can be split in two places (ambiguity within one iteration)
        for si, (P_nodes, Q_nodes) in enumerate(_splits(body)):
            try:
                P, Q = tr.plain(P_nodes, drop=True), tr.plain(Q_nodes, drop=True)
            except Exception:  # noqa: BLE001
                continue
            u, v, w = z3.String('u'), z3.String('v'), z3.String('w')
            s3 = z3.Solver()
            s3.add(z3.InRe(u, P), z3.InRe(z3.Concat(u, v), P), z3.Length(v) > 0, z3.InRe(z3.Concat(v, w), Q),
                   z3.InRe(w, Q), z3.Length(u) + z3.Length(v) + z3.Length(w) <= wl)
            r3 = ctx.z3_check(s3, f'{name}{path} Q3 {si}', 20000)
            if r3 != 'unsat':
                rec[f'Q3_{si}'] = r3
            if r3 == 'sat':
                m3 = s3.model()
                us, vs, ws = (rx.decode(m3.eval(q, model_completion=True)) for q in (u, v, w))
                rec[f'Q3_{si}_witness'] = [us, vs, ws]
                # one whole iteration of the loop containing the ambiguous piece
                it = z3.String('it')
                s4 = z3.Solver()
                s4.set('timeout', 10000)
                s4.add(z3.InRe(it, R), z3.Contains(it, rx.lit(us + vs + ws)), z3.Length(it) <= wl + 6)
                if str(s4.check()) == 'sat':
                    pumps.append(rx.decode(s4.model()[it]))
        ctx.obligation(engine='E2/z3', name=f'{name} loop {path}', verdict=(
            'inconclusive' if 'unknown' in rec.values() else ('ambiguous' if pumps else 'exhaustive')), **rec)
        if pumps:
            found.append((path, pumps, rec))
    # timing replay of ambiguous loops on the real pattern
    for path, pumps, rec in found:
        try:
            lc = left_context(tr, path)
            pres = rx.members(lc, 2, maxlen=12, timeout_ms=10000) or ['']
        except Exception:  # noqa: BLE001
            pres = ['']
        worst = None
        for pump in list(dict.fromkeys(pumps))[:10]:
            if not pump:
                continue
            for pre in pres[:2]:
                for poison in POISON:
                    def make(n, pre=pre, pump=pump, poison=poison):
                        return pre + pump * n + poison
                    exploded, series = growth(make, lambda s_, lim: time_match(pat.pattern, pat.flags, s_, lim))
                    if exploded:
                        worst = (pre, pump, poison, series)
                        break
                if worst:
                    break
            if worst:
                break
        ctx.evaluations += 1
        if worst:
            pre, pump, poison, series = worst
            detail = (f'{name}: real re.match time on {pre!r} + {pump!r}*n + {poison!r} grows super-polynomially: '
                      f'{series}')
            recd = dict(engine='E2', fn='redos', pattern=name, source=pat.pattern, flags=pat.flags, loop=str(path),
                        pre=pre, pump=pump, poison=poison, args=[name, str(path)], args_repr=[name, pump],
                        detail=detail, series=series)
            ctx.report(recd, True)
    return found


def replay(rec):
    if rec.get('api'):
        def mk(n):
            return rec['pre'] + rec['pump'] * n + rec['poison']
        exploded, series = growth(mk, lambda s_, lim: time_compile(s_, lim))
        return exploded, f'series {series}'

    def make(n):
        return rec['pre'] + rec['pump'] * n + rec['poison']
    exploded, series = growth(make, lambda s_, lim: time_match(rec['source'], rec['flags'], s_, lim))
    return exploded, f'series {series}'


API_ATTACKS = [
    ('[a="' + 'a' * 0, 'a', ''), ("[a='", 'a', ''), ('[a=', 'a', '!'), (':lang(', 'aa,', ''), (':lang(', 'a', '!'),
    (':-soup-contains(', 'aa,', ''), (':-soup-contains("', 'a', ''), ('', 'a', '!'), ('#', 'a', '!'), ('.', 'a', '\x00'),
    ('a', ' ', '!'), ('a', '/**/', '!'), ('a /*', '*', ''), ('a /*', '/', ''), (':nth-child(', '1', '!'),
    (':nth-child(2n', ' ', '!'), (':is(', 'a,', ''), (':not(', ':not(', ''), ('', '\\', ''), ('', '\\61', '!'),
    ('[', 'a', '!'), ('[a', ' ', '!'), ('[a=b', ' ', '!'), ('a', '>', ''), ('', ':a', '!'), ('a|', 'a', '!'),
    ('', '-', '!'), ('', '\\aa', '!'), ('', '\\aaaaaa', '!'), ('[', '\\a0b', '!'), (':lang(', '\\1a', '!'), ('[a="', '\\a', ''), ('[a="', '\\\n', ''), (':lang("', 'a-', ''), (':dir(', 'l', ''),
]


def run(ctx):
    ctx.level = 'other'
    wl = WITNESS_LEN[ctx.tier]
    pats = dict(rxlive.live_patterns())
    # document-side patterns inside compiled IR (one per attribute operator)
    import soupsieve as sv
    for op in ('=', '~=', '|=', '^=', '$=', '*=', '!='):
        c = sv.compile(f'[type{op}"ab"]')
        sel = c.selectors[0]
        attrs = sel.attributes or sel.selectors[0][0].attributes
        pats[f'IR.attribute[{op}].pattern'] = attrs[0].pattern
        if attrs[0].xml_type_pattern is not None:
            pats[f'IR.attribute[{op}].xml_type_pattern'] = attrs[0].xml_type_pattern
    ctx.functions.update(pats.keys())
    ctx.bounds.append(f'ambiguity witnesses |x|+|z|+|t| <= {wl}; attacks <= 64 characters; z3 alphabet U+0000..U+2FFFF')
    nloops = 0
    for name, pat in sorted(pats.items()):
        t0 = time.time()
        try:
            found = analyse_pattern(ctx, name, pat, wl)
        except Exception as e:  # noqa: BLE001
            ctx.harness_errors.append(f'{name}: translation/analysis failed: {type(e).__name__}: {e}')
            continue
        nloops += 1
        ctx.sample({'pattern': name, 'loops': len(rx.Translation(pat).loops()), 'ambiguous_loops': len(found),
                    'seconds': round(time.time() - t0, 2)})
    # API-level timing of the real parser on pumped prefixes of valid constructs (the statement's own examples)
    for pre, pump, poison in API_ATTACKS:
        def make(n, pre=pre, pump=pump, poison=poison):
            return pre + pump * n + poison
        exploded, series = growth(make, lambda s_, lim: time_compile(s_, lim))
        ctx.evaluations += 1
        ctx.obligation(engine='timing replay', name=f'compile({pre!r} + {pump!r}*n + {poison!r})',
                       verdict='exploded' if exploded else 'bounded', series=series)
        if exploded:
            ctx.report(dict(engine='E2', fn='compile_time', pattern='compile', source='', flags=0, pre=pre, pump=pump,
                            poison=poison, args=['compile', pre + pump], args_repr=['compile', pre + pump],
                            api=True, detail=f'compile({pre!r} + {pump!r}*n + {poison!r}) time series {series}'), True)
    ctx.assume('look-arounds are dropped from loop bodies (over-approximation: more ambiguity, never less)',
               'witness size bound: an ambiguity whose shortest witness is longer than the bound is missed',
               'only exponential growth visible within 64 characters is a violation; high-degree polynomial growth '
               'is outside the claim',
               'timing is measured on this machine with a 2 s cut-off per attempt')
    ctx.extra['translator'] = 'vlib/rx2smt.py from re._parser.parse of the live patterns'


FINISH = dict(explanation='z3 decides, for every loop of every live regular expression, whether an ambiguity witness of '
              'bounded size exists; sat models are pumped and timed on the real re/compile')
