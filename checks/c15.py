"""C15 — immutable values, transparent cache."""
from vlib.e1 import Cond

FUNCS = ['soupsieve.css_types.Immutable.__init__/__eq__/__ne__/__hash__/__setattr__', 'css_types.ImmutableDict/Namespaces/'
         'CustomSelectors', 'css_types._pickle / pickle_register', 'soupsieve.css_parser._cached_css_compile / _purge_cache',
         'soupsieve.compile / purge', 'soupsieve.css_match.SoupSieve']

CONDS = [
    Cond('eq_hash_ok', 'compile(x) == compile(y) <=> x, y equal as (pattern, namespaces, custom, flags); equal => equal '
         'hash and one set member; with and without a purge in between',
         '27 argument tuples (reordered maps, 0/False/True/DEBUG, None vs {}, case, whitespace, equal An+B spellings) squared',
         timeout={'quick': 100, 'thorough': 300}),
    Cond('ir_eq_repr_ok', 'equality of compiled structures == equality of their reprs (every slot, incl. regex flags), for all '
         'pairs of the pool; equal => equal hash', 'general pool + 37 near-miss selectors (differing in one combinator, flag, '
         'pseudo-class, namespace prefix ...), all pairs', timeout={'quick': 100, 'thorough': 300}, parts={'quick': 2, 'thorough': 2}),
    Cond('immutable_ok', 'setattr / delattr on every slot of every node of the compiled structure raise AttributeError; '
         'maps reject item assignment; repr unchanged; every node hashable',
         'general selector pool (one spelling of every pseudo-class + basics) with namespaces and a custom map',
         timeout={'quick': 100, 'thorough': 300}, parts={'quick': 2, 'thorough': 2}),
    Cond('copies_ok', 'pickle (default and protocol 2), copy, deepcopy: equal, equal hash, same select() on HTML and XML',
         'general selector pool', timeout={'quick': 100, 'thorough': 300}, parts={'quick': 2, 'thorough': 2}),
    Cond('caller_maps_ok', 'the compiled object does not alias the caller\'s namespaces / custom dicts: after clear / change / add / '
         'delete / retarget on them it keeps its maps, hash, equality with its copies and with a compile from the original '
         'maps, and its selection', '6 (pattern, namespaces, custom) cases x 5 mutations x purge or not',
         timeout={'quick': 60, 'thorough': 300}),
    Cond('cache_history_ok', 'after any history of 4 compile/purge calls compile(x) equals a cache-bypassing parse, is '
         'idempotent by identity, purge empties the cache, maxsize is 500',
         'histories of length 4 over 10 operations x observed selector from the general pool',
         timeout={'quick': 100, 'thorough': 900}, parts={'quick': 4, 'thorough': 8}),
    Cond('cache_bound_ok', '501..520 distinct patterns: currsize never exceeds 500 and ends at 500', 'n in 501..520',
         timeout={'quick': 100, 'thorough': 300}),
    Cond('compiled_passthrough_ok', 'compile(compiled) is the same object; flags / namespaces / custom given with a '
         'compiled object raise ValueError', 'general pool x 5 argument forms', timeout={'quick': 100, 'thorough': 300},
         parts={'quick': 2, 'thorough': 2}),
    Cond('tag_eq_hash_ok', 'SelectorTag equality <=> field equality; equal => equal hash', 'symbolic names (len <= 2) and '
         'prefixes (None or len <= 1)', timeout={'quick': 100, 'thorough': 600}),
    Cond('nth_eq_hash_ok', 'SelectorNth equality <=> field equality (True == 1); equal => equal hash',
         'a, b in -3..3, flags symbolic', timeout={'quick': 100, 'thorough': 600}),
    Cond('dict_eq_hash_ok', 'Namespaces / CustomSelectors: order-independent equality and hash', 'two symbolic entries',
         timeout={'quick': 100, 'thorough': 600}),
]


def run(ctx):
    ctx.assume('pools are bounded enumerations steered by the solver; field values of the IR value types are symbolic',
               'the 500-entry bound is exercised by one concrete fill per n',
               'CrossHair 0.0.110 trusted for "exhaustive"; counterexamples replayed')
    ctx.run_e1('harness.c15', CONDS, FUNCS)
