"""C14 — concurrent compilation and matching behave as if run one at a time (E3: schedules as solver variables)."""
from __future__ import annotations
import itertools
import warnings

from vlib import sched

POOL = [':nth-child(2n+1)', ':lang(en)', ':-soup-contains("x")', ':dir(ltr)', ':nth-of-type(odd)', 'div > p.a[t=x]',
        ':is(a, b):not(.c)', ':nth-last-child(2 of .k)', ':--alias', ':unknown', ':checked', 'p:has(> span)',
        ':lang("de-*", fr)', ':-soup-contains-own(te)', ':nth-child(x)', ':-soup-contains("alpha", "beta", te)',
        ':lang(de)', 'p:lang(fr, en):-soup-contains(y, x)', 'p:--alias', ':--outer', ':--undefined']
CUSTOM = {':--alias': 'p:nth-child(odd)', ':--outer': 'div :--alias, :--alias > span'}
DETACHED = ['p:first-of-type', 'div:first-of-type', ':nth-child(1 of p)', ':nth-last-of-type(1)', 'p:only-of-type', ':root',
            'p:first-child', ':nth-child(2n+1 of div)']
MARKUP = '<html lang="en"><body><div><p class="a" t="x">te<span>x</span></p><p>y</p></div><input type="checkbox" checked></body></html>'


def run(ctx):
    warnings.simplefilter('ignore')
    import soupsieve as sv
    import bs4
    from soupsieve import css_parser as cp, css_match as cm, css_types as ct, util, pretty
    ctx.level = 'model_checking'
    mods = [cp, cm, ct, util, pretty, sv]
    found = sched.discover(mods) + sched.wrap_caches(mods)
    before = sched.globals_snapshot(mods)
    cbefore = sched.class_snapshot(mods)
    ctx.functions.update(['soupsieve.compile', 'soupsieve.css_parser.CSSParser (tokenizer + parser)',
                          'soupsieve.css_parser.SelectorPattern / SpecialPseudoPattern instances in CSSParser.css_tokens',
                          'soupsieve.SoupSieve.select / match / filter / closest', 'soupsieve.css_match.CSSMatch'])
    ctx.extra['instrumented_shared_objects'] = [f'{w} ({k})' for w, k, _ in found]
    doc = bs4.BeautifulSoup(MARKUP, 'html.parser')
    els = [t for t in doc.descendants if isinstance(t, bs4.Tag)]

    def mk_compile(p):
        def f():
            sv.purge()
            return repr(sv.compile(p, custom=CUSTOM).selectors)
        return f

    def mk_raw(p):
        def f():
            return repr(cp.CSSParser(p, custom=cp.process_custom(ct.CustomSelectors(CUSTOM))).process_selectors())
        return f

    compiled = {}
    for p in POOL:
        try:
            compiled[p] = sv.compile(p, custom=CUSTOM)
        except Exception:  # noqa: BLE001
            pass

    def mk_select(p):
        c = compiled[p]

        def f():
            return ([id(e) for e in c.select(doc)], [bool(c.match(e)) for e in els], [id(e) for e in c.filter(doc.body)],
                    id(c.closest(els[-1])))
        return f

    # elements without a parent (extracted / never inserted): the matcher gives them a temporary parent
    loose = []
    for mk in ('<p class="a">x</p>', '<div>y</div>'):
        loose.append(bs4.BeautifulSoup(mk, 'html.parser').contents[0].extract())
    loose.append(doc.new_tag('p'))

    def mk_detached(p):
        c = sv.compile(p)

        def f():
            return [bool(c.match(e)) for e in loose] + [len(c.filter(loose))]
        return f

    # a vocabulary large enough to bring any bounded name cache inside the library to its capacity
    flood = bs4.BeautifulSoup('<x></x>', 'html.parser')
    for i in range(700):
        flood.x.attrs['zq%d' % i] = ''
        flood.x.append(flood.new_tag('zt%d' % i))
    flooder = sv.compile('[nosuch], nosuch')

    def fresh():
        # every call is traced and replayed from the state just after purge() and after a query over 1400 distinct names, so
        # that first-use effects and evictions from bounded caches are part of every trace
        sv.purge()
        flooder.select(flood)

    calls = [('compile ' + p, mk_raw(p)) for p in POOL] + [('select ' + p, mk_select(p)) for p in compiled] + \
        [('detached ' + p, mk_detached(p)) for p in DETACHED]
    traces = {}
    solo = {}
    for name, fn in calls:
        fresh()
        ev, res = sched.trace(fn)
        traces[name], solo[name] = ev, res
    after = sched.globals_snapshot(mods)
    rebound = [k for k in before if after.get(k) != before[k]]
    cafter = sched.class_snapshot(mods)
    rebound += [k for k in cafter if cbefore.get(k) != cafter[k]]
    writers = {name: sum(1 for e in ev if e[0] == 'w') for name, ev in traces.items()}
    ctx.extra['shared_writes_per_call'] = {k: v for k, v in writers.items() if v}
    ctx.extra['module_globals_rebound_by_calls'] = rebound
    ctx.extra['calls_traced'] = len(calls)
    ctx.sample({'trace of': calls[0][0], 'events': traces[calls[0][0]][:8]})
    nthreads = 2 if ctx.tier == 'quick' else 3
    names = [n for n, _ in calls]
    fnmap = dict(calls)
    touching = [n for n in names if traces[n]]
    ctx.log(f'{len(found)} shared objects instrumented; calls touching shared state: {len(touching)}; with writes: '
            f'{sum(1 for v in writers.values() if v)}')
    # Module globals rebound by a call are shared writes whose readers the proxies cannot see; they are listed in the
    # evidence and handed to the free-running backstop below (a violation is only ever reported for a reproduced
    # divergence).
    combos = list(itertools.product(touching, repeat=nthreads)) if touching else []
    if ctx.tier == 'thorough' and len(combos) > 4000:
        combos = combos[::max(1, len(combos) // 4000)]
    nsat = 0
    nviol = 0
    for combo in combos:
        trs = [traces[n] for n in combo]
        s_verdict, schedules, info = sched.find_interferences(trs, limit=6 if ctx.tier == 'quick' else 12)
        ctx.z3_queries['issued'] += 1
        ctx.z3_queries[s_verdict if s_verdict in ('sat', 'unsat') else 'unknown'] += 1
        ctx.evaluations += 1
        ctx.distinct += 1 if s_verdict in ('sat', 'unsat') else 0
        if s_verdict != 'sat':
            if len(ctx.obligations) < 400:
                ctx.obligation(engine='E3/z3', name=' || '.join(combo), verdict='exhaustive' if s_verdict == 'unsat'
                               else 'inconclusive', info=info)
            continue
        nsat += 1
        bad = None
        for schedule in schedules:
            fresh()
            results = sched.enforce(schedule, [fnmap[n] for n in combo])
            diverged = [(n, r, solo[n]) for n, r in zip(combo, results)
                        if (r is None) or r[0] != solo[n][0] or (r[0] == 'ok' and r[1] != solo[n][1]) or
                        (r[0] == 'exc' and not str(r[1]).startswith(str(solo[n][1])))]
            ctx.evaluations += 1
            if diverged:
                bad = (schedule, diverged)
                break
        if len(ctx.obligations) < 600 or bad:
            ctx.obligation(engine='E3/z3', name=' || '.join(combo), verdict='counterexample' if bad else 'benign',
                           schedules_enforced=len(schedules), info=info)
        if bad:
            schedule, diverged = bad
            n, r, s0 = diverged[0]
            ctx.report(dict(engine='E3', fn='interleaving', args=list(combo), args_repr=[repr(c) for c in combo],
                            schedule=schedule, detail=f'under schedule {[(t, trs[t][i][0], trs[t][i][2]) for t, i in schedule][:8]} '
                            f'thread "{n}" returned {str(r)[:120]} instead of {str(s0)[:120]}'), True)
            nviol += 1
            if nviol >= 12:
                break
    ctx.sample({'thread combinations queried': len(combos), 'satisfiable (a read can observe a foreign write)': nsat})
    # Backstop outside the model (not the deciding step): free-running threads with a tiny switch interval, to notice
    # shared state the discovery cannot see.  Only a divergence from the sequential result is reported.
    import sys
    import threading
    old_si = sys.getswitchinterval()
    sys.setswitchinterval(1e-6)
    stress_div = None
    rounds = 150 if ctx.tier == 'quick' else 1500
    if rebound or any(writers.values()):
        rounds *= 10
    try:
        cnames = list(names)
        for k in range(rounds):
            a, b = cnames[k % len(cnames)], cnames[(k * 7 + 3) % len(cnames)]
            out = [None, None]
            if k % 3 == 0:
                fresh()

            def w(i, n):
                try:
                    out[i] = ('ok', fnmap[n]())
                except Exception as e:  # noqa: BLE001
                    out[i] = ('exc', type(e).__name__)
            th = [threading.Thread(target=w, args=(0, a)), threading.Thread(target=w, args=(1, b))]
            for x in th:
                x.start()
            for x in th:
                x.join()
            for i, n in enumerate((a, b)):
                if out[i] != solo[n]:
                    stress_div = (a, b, n, out[i], solo[n])
            if stress_div:
                break
    finally:
        sys.setswitchinterval(old_si)
    ctx.extra['free_running_backstop_rounds'] = rounds
    if stress_div:
        a, b, n, got, exp = stress_div
        ctx.report(dict(engine='E3', fn='free_running', args=[a, b], args_repr=[repr(a), repr(b)],
                        detail=f'free-running threads ({a} || {b}): "{n}" returned {str(got)[:100]} instead of {str(exp)[:100]}'),
                   True)
    # cache left behind: every pattern still compiles to a fresh parse
    bad_cache = []
    for p in POOL:
        try:
            a = repr(sv.compile(p, custom=CUSTOM).selectors)
        except Exception as e:  # noqa: BLE001
            a = type(e).__name__
        try:
            b = repr(cp.CSSParser(p, custom=cp.process_custom(ct.CustomSelectors(CUSTOM))).process_selectors())
        except Exception as e:  # noqa: BLE001
            b = type(e).__name__
        if a != b:
            bad_cache.append(p)
    if bad_cache:
        ctx.report(dict(engine='E3', fn='cache_poisoned', args=bad_cache, args_repr=[repr(bad_cache)],
                        detail=f'after the interleaved runs compile() of {bad_cache} differs from a fresh parse'), True)
    ctx.bounds.append(f'{nthreads} threads, one API call each, switch points = accesses to discovered shared mutable state')
    ctx.assume('discovery is complete for Python-level shared state: mutable instances and dict/list/set objects reachable '
               'from module globals and class attributes of the soupsieve modules; C-level state is not visible',
               'functools.lru_cache (_cached_css_compile, util.lower) is atomic per call as documented; the wrapped '
               'function may run twice for one key',
               'per-call objects (CSSParser, CSSMatch, _Selector) are thread-local by construction: each API call creates its own',
               'the interpreter switches threads only between bytecodes; free-threaded builds are outside the claim')


def replay(rec):
    return None, 'E3 findings are replayed inside the check (schedule enforcement on real threads); re-run ./check C14'


FINISH = dict(explanation='z3 decides for every combination of traced API calls whether an interleaving exists in which a '
              'read of shared state observes another thread\'s write; satisfiable schedules are enforced on real threads')
