"""C08 — matching never raises."""
from vlib.e1 import Cond

FUNCS = ['soupsieve.SoupSieve.select/select_one/iselect/match/filter/closest', 'soupsieve.css_match.CSSMatch.* (all '
         'match_* predicates reached through the API)', 'CSSMatch.match_range', 'Inputs.parse_value',
         '_DocumentNav.normalize_value', 'CSSMatch.match_dir', 'CSSMatch.match_lang', 'CSSMatch.match_default',
         'CSSMatch.match_indeterminate', '_DocumentNav.assert_valid_input']

CONDS = [
    Cond('any_selector_any_target_ok',
         'all six entry points return values of the documented types for (selector, document, call target)',
         'selector pool: BASIC + at least one spelling of every pseudo-class in the live PSEUDO_* tables (symbolic index); for each, 16 '
         'documents (forms document under html.parser / lxml / html5lib, plain, several top-level nodes, XML with namespaces, '
         'XHTML via lxml-xml, empty, foreign forms, list-valued <meta>, script/style/template text, every multi-valued attribute '
         'on every control under three parsers); target: the document and every element',
         timeout={'quick': 100, 'thorough': 900}, parts={'quick': 8, 'thorough': 8}),
    Cond('detached_ok', 'same on detached fragments (no document object) and their descendants',
         'four fragments: form, list, XML element, single input', timeout={'quick': 80, 'thorough': 600},
         parts={'quick': 2, 'thorough': 4}),
    Cond('range_strings_ok',
         ':in-range/:out-of-range on <input> with type from a pool (missing, empty, every range type, upper case, '
         'other) and symbolic min / max / value strings: returns Booleans, never both',
         'len <= 8 quick / 11 thorough over "0-9 - : T W . e + space newline"; each attribute present or absent',
         timeout={'quick': 110, 'thorough': 900}),
    Cond('long_values_ok', 'min / max / value made of digit runs of 4 .. 6000 characters (past the 4300-digit int conversion '
         'limit) for every range type', '6 lengths x 9 value forms x 3 attributes', timeout={'quick': 60, 'thorough': 120}),
    Cond('state_strings_ok',
         'every state pseudo-class over the forms document after injecting symbolic dir / lang / type / name / '
         'placeholder strings (all of Unicode) into one of seven elements',
         'len(dir) <= 4, len(lang) <= 3, len(type) <= 2, len(name), len(placeholder) <= 1',
         timeout={'quick': 110, 'thorough': 900}, parts={'quick': 5, 'thorough': 10}),
    Cond('surrogate_ok', 'lone surrogates (surrogateescape-decoded or API-assigned text) in the values the state pseudo-classes read, '
         'in attribute names and in element names: every entry point returns for every selector of the pool', 'selector pool x 5 '
         'strings x 3 placements', timeout={'quick': 100, 'thorough': 300}, parts={'quick': 2, 'thorough': 2}),
    Cond('odd_values_ok', 'attribute / class / id selectors on elements whose t / class / id attribute holds None, '
         'numbers, bool, bytes, nested lists, tuples, empty lists (HTML and XML trees)',
         '19 selectors x 22 odd values x 3 attributes x 2 document kinds (enumerated by symbolic index)',
         timeout={'quick': 110, 'thorough': 900}, parts={'quick': 4, 'thorough': 4}),
    Cond('non_tag_target_ok', 'str / None / int / NavigableString / Comment as call target raise TypeError only',
         'selector pool x 5 non-Tag values', timeout={'quick': 60, 'thorough': 300}, parts={'quick': 2, 'thorough': 2}),
]


def run(ctx):
    ctx.assume('documents are concrete skeletons parsed by the installed parsers; only attribute strings are symbolic',
               'util.lower lru_cache bypassed (pure function)',
               'CrossHair 0.0.110 models (str, regex with the two corrections of vlib/chfix.py, int) are trusted for '
               '"exhaustive"; counterexamples are replayed on the real code')
    ctx.run_e1('harness.c08', CONDS, FUNCS)
