"""C05 — Boolean algebra of lists and logical pseudo-classes."""
from vlib.e1 import Cond

FUNCS = ['soupsieve.css_match.CSSMatch.match_selectors (list evaluation, is_not, HTML-only lists)',
         'CSSMatch.match_subselectors', 'soupsieve.css_parser.CSSParser.parse_selectors (is_html propagation, forgiving '
         'lists)', 'CSSParser.parse_pseudo_open', 'CSSParser.parse_pseudo_class_custom', 'SoupSieve.select']

CONDS = [
    Cond('laws_ok', "'A, B' = A u B; :is(A, B) = :is(A) u :is(B) (= 'A, B' without default namespace); :not(A) = * \\ :is(A); "
         ":not(A, B) = * \\ :is(A, B); :where/:matches == :is; A subset of 'A, B'; X:is(A) = X n :is(A)",
         'A, B from a pool of ~130 alternatives (every pseudo-class of the live tables, HTML-only and state '
         'pseudo-classes, namespaced types, custom aliases, :dir/:defined) -> ~17000 pairs, 80 (quick) / 4000 (thorough) '
         'pairs per part (x 14/16 parts): first the 644 fixed pairs (HTML-only pseudo-class x namespace/iframe/custom-sensitive '
         'alternative; plain alternative x never-matching pseudo-class; both orders), then VERIF_SEED-scrambled pairs; laws also with an explicit *|* subject; 3 namespace maps (none, prefixes, default); '
         '10 documents (HTML by html.parser / html5lib, XHTML, XML, several top-level nodes, iframe, inline SVG via '
         'lxml-xml and html5lib)', timeout={'quick': 110, 'thorough': 900}, parts={'quick': 14, 'thorough': 16}),
]


def run(ctx):
    ctx.assume('metamorphic relations only (no external oracle); pairs are a bounded, seed-rotated sample of the pool product '
               'chosen by the solver through a scrambled index',
               'CrossHair 0.0.110 trusted for "exhaustive"; counterexamples replayed')
    ctx.run_e1('harness.c05', CONDS, FUNCS)
