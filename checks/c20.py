"""C20 — diagnostics."""
from vlib.e1 import Cond

FUNCS = ['soupsieve.util.get_pattern_context', 'soupsieve.util.RE_PATTERN_LINE_SPLIT', 'soupsieve.util.SelectorSyntaxError',
         'soupsieve.css_parser.CSSParser.parse_selectors / selector_iter (error offsets)', 'soupsieve.pretty.pretty',
         'soupsieve.pretty.TOKENS', 'soupsieve.compile(flags=DEBUG)']

CONDS = [
    Cond('context_ok', 'get_pattern_context(p, i) == reference (line = 1 + breaks ending at or before i, column = offset in '
         'line + 1, context = the lines with a caret under that column) incl. i = len(p)',
         'p symbolic over {a, b, \\n, \\r}, len <= 4 quick / 7 thorough; every offset 0..len(p)',
         timeout={'quick': 110, 'thorough': 900}),
    Cond('context_enum_ok', 'the same for every pattern of length <= 4 over {a, LF, CR, FF, VT, FS, NEL, LS, PS, space} and every '
         'offset, for get_pattern_context and for SelectorSyntaxError: only LF, CRLF and CR end a line', '11111 patterns x all offsets',
         timeout={'quick': 100, 'thorough': 300}, parts={'quick': 4, 'thorough': 4}),
    Cond('error_attrs_ok', 'SelectorSyntaxError(msg, p, i).line/col/context == reference and context is in the message',
         'len(p) <= 3', timeout={'quick': 60, 'thorough': 300}),
    Cond('parser_offsets_ok', 'for every SelectorSyntaxError the real parser raises, (context, line, col) equals the '
         'reference for some offset 0..len(pattern) of that pattern',
         '34 malformed selectors x 7 multi-line prefixes x 4 suffixes (enumerated by symbolic index)',
         timeout={'quick': 100, 'thorough': 600}, parts={'quick': 4, 'thorough': 4}),
    Cond('debug_flag_ok', 'compile(p, flags=DEBUG) yields an equal selector structure and equal select() results',
         'general selector pool x 2 documents', timeout={'quick': 100, 'thorough': 600},
         parts={'quick': 3, 'thorough': 4}),
    Cond('debug_errors_ok', 'rejected patterns are rejected identically (type, message, line, column, context) with and '
         'without DEBUG', 'same malformed-pattern pool', timeout={'quick': 100, 'thorough': 600}, parts={'quick': 2, 'thorough': 4}),
    Cond('pretty_ok', 'pretty(compiled.selectors) terminates (probe-count bound) and equals repr up to whitespace',
         'general selector pool + 16 selectors with negative An+B terms, regex flags, quotes, brackets, nested lists; '
         'with and without a namespace map', timeout={'quick': 100, 'thorough': 600},
         parts={'quick': 3, 'thorough': 4}),
    Cond('pretty_terminates_ok', 'pretty() makes progress on every string over the characters reprs are made of',
         'symbolic s, len <= 3 quick / 5 thorough over 19 characters', timeout={'quick': 110, 'thorough': 900}),
]


def run(ctx):
    ctx.assume('termination of pretty() is observed through a probe counter wrapped around pretty.TOKENS '
               '(> 16*(len+2) token probes = no progress)',
               'util.lower lru_cache bypassed (pure function)',
               'CrossHair 0.0.110 models trusted for "exhaustive"; counterexamples replayed on the real code')
    ctx.run_e1('harness.c20', CONDS, FUNCS)
