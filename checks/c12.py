"""C12 — namespaces through the prefix map."""
from vlib.e1 import Cond

FUNCS = ['soupsieve.css_match.CSSMatch.match_namespace', 'CSSMatch.get_tag_ns / supports_namespaces',
         'CSSMatch.match_attribute_name', '_DocumentNav.split_namespace', 'soupsieve.css_types.Namespaces',
         'soupsieve.css_parser.CSSParser.parse_tag_pattern / parse_attribute_selector (prefix parsing, implied universal)']

CONDS = [
    Cond('element_ns_enum_ok', 'ns|E, *|E, |E, E, ns|*, unmapped prefix, inside :is()/:not(), lists, child combinator: select == reference '
         'namespace predicate on an XML tree; URIs from a 4-value pool: all equality patterns of (root ns, element ns, '
         'map[x], map[default]) incl. absent entries; document prefixes collide with / differ from the map', '15 selectors x 4 x 4 x 4 x 4 combinations',
         timeout={'quick': 100, 'thorough': 300}),
    Cond('attr_ns_ok', '[ns|a], [*|a], [|a], [a], unmapped prefix, with values, inside :not/:is on an element carrying a '
         'namespaced attribute (symbolic URI) and a plain one', '2 symbolic URIs, 15 selector forms',
         timeout={'quick': 100, 'thorough': 900}, parts={'quick': 5, 'thorough': 5}),
    Cond('parsed_ns_ok', 'XHTML+SVG+xlink document parsed by lxml-xml and html5lib x 7 prefix maps (none, empty, matching, '
         'default=XHTML, default=SVG, swapped, colliding prefix) x 14 selectors against expected id sets',
         'enumerated by symbolic index', timeout={'quick': 100, 'thorough': 300}),
    Cond('mixed_ns_ok', 'a non-XHTML XML document mixing four namespaces and none: namespace tests combined with HTML-only '
         'pseudo-classes (which match nothing there) and lists whose members have no type selector, under 8 prefix maps incl. '
         'default entries: select / match / filter == reference predicate', '28 selectors x 8 maps x 3 entry points',
         timeout={'quick': 100, 'thorough': 300}),
]


def run(ctx):
    ctx.assume('plain HTML trees without namespace support (html.parser, lxml HTML) are outside the attribute-namespace claim',
               'element namespace URIs come from a 4-value pool (only their equality structure matters to the matcher); a fully symbolic variant was dropped because CrossHair 0.0.110 produced non-reproducing candidates on it',
               'CrossHair 0.0.110 trusted for "exhaustive"; counterexamples replayed')
    ctx.run_e1('harness.c12', CONDS, FUNCS)
