"""C06 — compile() raises documented errors only."""
import z3
from vlib.e1 import Cond
from vlib import rx2smt as rx

FUNCS = ['soupsieve.css_parser.css_unescape', 'css_parser.RE_CSS_ESC / RE_CSS_STR_ESC', 'CSSParser.selector_iter',
         'CSSParser.parse_selectors (+ every parse_* it dispatches to)', 'css_parser.process_custom',
         'CSSParser.parse_pseudo_class_custom', 'soupsieve.compile']

CONDS = [
    Cond('unescape_total_ok', 'css_unescape(s) / css_unescape(s, True) return a string for every s',
         'len(s) <= 3 quick / 4 thorough, all of Unicode', timeout={'quick': 100, 'thorough': 900}),
    Cond('unescape_hex_ok', 'every hex escape of 1..6 digits (values 0..0xFFFFFF) followed by any character decodes; 0 and '
         '> U+10FFFF give U+FFFD', 'h symbolic over hex digits (both cases), one trailing symbolic character',
         timeout={'quick': 100, 'thorough': 600}),
    Cond('unescape_after_hex_ok', 'text following a hex escape (spaces, "/", "*", letters, backslashes) never breaks decoding',
         'len <= 5 over "/ * a space backslash"', timeout={'quick': 100, 'thorough': 600}),
    Cond('compile_slot_ok', 'PRE + s + POST through the real parser: compiled selector, SelectorSyntaxError or '
         'NotImplementedError, nothing else',
         '34 templates (attribute, string, comment, pseudo-class, An+B, :lang, :dir, combinators, namespaces, at-rule, '
         'pseudo-element, custom) with a symbolic slot s, len <= 2 quick / 3 thorough, all of Unicode: tokenising symbolic '
         'text is the slow path, this condition is time-boxed counterexample search',
         timeout={'quick': 110, 'thorough': 900}, parts={'quick': 9, 'thorough': 16}),
    Cond('compile_escape_ok', 'a hex escape of any value (0..0xFFFFFF) in identifier, id, quoted/unquoted attribute value, '
         ':-soup-contains and :lang argument position compiles or raises a documented error',
         '8 templates x symbolic hex digits (1..6)', timeout={'quick': 110, 'thorough': 900}),
    Cond('custom_map_ok', 'custom maps with symbolic names and definitions (second entry refers to the first): documented '
         'errors only; KeyError only when two names differ only in case',
         'len(name), len(definition) <= 2, all of Unicode; 5 using selectors', timeout={'quick': 110, 'thorough': 900}),
    Cond('attr_meta_ok', 'regular-expression metacharacters as attribute operands for every operator (plain, in :not, in :is, '
         'with i flag): compile succeeds and the selector matches the operand literally',
         '22 operands x 7 operators x 4 forms', timeout={'quick': 60, 'thorough': 120}),
    Cond('odd_inputs_ok', 'odd but (nearly) tokenizable patterns — empty functional arguments, dangling operators, stray '
         'brackets, quotes, comments, NUL, surrogates, upper-case forms — x 18 custom maps (empty, self-referential, cyclic, '
         'malformed names / definitions): documented errors only', '150 patterns x 18 maps', timeout={'quick': 100, 'thorough': 300},
         parts={'quick': 1, 'thorough': 2}),
    Cond('long_numbers_ok', 'digit runs of 5 .. 6000 characters (past the 4300-digit int conversion limit) in An+B terms, '
         'attribute values, ids and :lang arguments compile or raise a documented error',
         '6 lengths x 9 forms (enumerated by symbolic index)', timeout={'quick': 60, 'thorough': 120}),
    Cond('custom_cycles_ok', 'self-referential, mutually recursive, case-colliding and malformed custom maps',
         '12 maps x 5 using selectors', timeout={'quick': 60, 'thorough': 300}),
]


def escape_lemmas(ctx):
    """E2: whatever group 1 of the live escape patterns captures is `\\` + 1..6 hex digits + optional CSS whitespace, so
    int(text[1:], 16) cannot fail (Python's int() strips ASCII whitespace); unbounded strings."""
    import re._constants as c
    from soupsieve import css_parser as cp
    hexd = rx.union([rx.rng(48, 57), rx.rng(65, 70), rx.rng(97, 102)])
    ws = rx.union([z3.Re(rx.lit(x)) for x in (' ', '\t', '\n', '\r', '\f', '\r\n')])
    ref = z3.Concat(z3.Re(rx.lit('\\')), z3.Loop(hexd, 1, 6), z3.Option(ws))
    for name in ('RE_CSS_ESC', 'RE_CSS_STR_ESC'):
        pat = getattr(cp, name)
        tr = rx.Translation(pat)
        g1 = None

        def find(nodes):
            nonlocal g1
            for op, arg in nodes:
                if op is c.SUBPATTERN:
                    if arg[0] == 1:
                        g1 = arg[3]
                    find(arg[3])
                elif op is c.BRANCH:
                    for a in arg[1]:
                        find(a)
                elif op in (c.MAX_REPEAT, c.MIN_REPEAT):
                    find(arg[2])
        find(tr.tree)
        L = tr.plain(g1, drop=True)
        x = z3.String('x')
        s = z3.Solver()
        s.add(z3.InRe(x, z3.Intersect(L, z3.Complement(ref))))
        r = ctx.z3_check(s, f'{name} group 1', 30000)
        ob = dict(engine='E2/z3', name=f'L({name} group 1) subset of backslash hex{{1,6}} ws? (so int(x[1:], 16) is defined)',
                  verdict={'unsat': 'exhaustive', 'sat': 'counterexample'}.get(r, 'inconclusive'))
        if r == 'sat':
            val = rx.decode(s.model().eval(x, model_completion=True))
            ob['model'] = val
            try:
                cp.css_unescape(val, name == 'RE_CSS_STR_ESC')
                bad = False
                detail = 'css_unescape accepted it'
            except Exception as e:  # noqa: BLE001
                bad = True
                detail = f'css_unescape({val!r}) raised {type(e).__name__}: {e}'
            ctx.report(dict(engine='E2', fn='escape_lemma', args=[name, val], args_repr=[repr(name), repr(val)],
                            detail=detail), bad)
        ctx.obligation(**ob)


def replay(rec):
    from soupsieve import css_parser as cp
    name, val = rec['args']
    try:
        cp.css_unescape(val, name == 'RE_CSS_STR_ESC')
        return False, 'no exception'
    except Exception as e:  # noqa: BLE001
        return True, f'css_unescape({val!r}) raised {type(e).__name__}: {e}'


def run(ctx):
    ctx.assume('nesting depth beyond the interpreter recursion limit is outside the claim',
               '_cached_css_compile lru_cache bypassed for symbolic patterns (cannot be hashed)',
               'util.lower lru_cache bypassed (pure function)',
               'CrossHair 0.0.110 models (with vlib/chfix.py) trusted for "exhaustive"; counterexamples replayed')
    ctx.lemma(escape_lemmas, 'escape_lemmas')
    ctx.run_e1('harness.c06', CONDS, FUNCS)
