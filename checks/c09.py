"""C09 — spelling independence."""
from vlib.e1 import Cond

FUNCS = ['soupsieve.css_parser.CSSParser.css_tokens (ordered token patterns; PAT_COMBINE, PAT_PSEUDO_CLOSE)',
         'css_parser.RE_WS_END / selector_iter tail detection', 'css_parser.css_unescape', 'CSSParser.parse_* (via compile)',
         'soupsieve.compile', 'SoupSieve.select']

CONDS = [
    Cond('combinator_token_ok', "real tokenizer step at 'a' + u + C + v + 'b': one combine token spanning u C v with relation C",
         'u, v = two atoms each from {empty, space, newline, CRLF, comment, space+comment, comment+tab}; comment bodies '
         'symbolic over "a * / space > ," (len <= 2 quick / 3 thorough, no terminator inside); C in > + ~ ,',
         timeout={'quick': 110, 'thorough': 900}),
    Cond('descendant_token_ok', 'a filler containing whitespace between compounds is one descendant combinator',
         'three atoms, at least one with whitespace', timeout={'quick': 110, 'thorough': 900}),
    Cond('tail_ok', 'RE_WS_END at a token boundary matches exactly when the rest is whitespace/comments (after a comment '
         "terminator followed by '*', '/', ...)", 'len(u) <= 4 / 6, len(mid) <= 2', timeout={'quick': 110, 'thorough': 900}),
    Cond('close_token_ok', "filler before ')' is part of the closing token", 'two atoms',
         timeout={'quick': 110, 'thorough': 600}),
    Cond('escape_spelling_ok', 'characters written as \\\\hex-space, 6-digit hex or \\\\char decode to themselves '
         '(identifier and string flavour)', 'len(s) <= 2, all of Unicode except NUL and newlines',
         timeout={'quick': 110, 'thorough': 600}),
    Cond('respelling_ok', 'seeded respellings (fillers from a pool of 15 at every gap, escaped identifier/string '
         'characters, quote style, case of names/keywords/flags) compile to the same structure and select the same elements',
         '15 hand-written + 1000/6000 random selector lists x 12/40 respellings each x 3 documents; VERIF_SEED rotates',
         timeout={'quick': 110, 'thorough': 900}, parts={'quick': 8, 'thorough': 16}),
]


def run(ctx):
    ctx.assume('fillers are restricted to a 5-character alphabet in the token lemmas (the token patterns only distinguish '
               'whitespace, "/", "*" and other characters)',
               'end-to-end respelling is a bounded, seed-rotated enumeration steered by the solver',
               'CrossHair 0.0.110 regex model incl. lazy/greedy priority and look-ahead (with vlib/chfix.py) trusted for '
               '"exhaustive"; counterexamples replayed')
    ctx.run_e1('harness.c09', CONDS, FUNCS)
