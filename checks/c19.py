"""C19 — text pseudo-classes."""
from vlib.e1 import Cond

FUNCS = ['soupsieve.css_match.CSSMatch.match_contains', '_DocumentNav.get_text / get_own_text / get_descendants / get_contents',
         '_DocumentNav.is_content_string / is_special_string / is_navigable_string', 'CSSMatch.match_empty',
         'soupsieve.css_parser.CSSParser.parse_pseudo_contains', 'SoupSieve.select']

CONDS = [
    Cond('contains_ok', 'real match_contains(el, spec) with symbolic search strings == reference on every element: some string '
         'occurs in the document-order concatenation of descendant text nodes (own: inside one direct text child); '
         'comments/CDATA/PI/declaration/doctype are not text; iframe content excluded in HTML',
         '60/300 seeded random trees (<= 8 elements, depth <= 3, text from {a, b, ab, ba, "a b", space, newline, empty}, '
         'all special node kinds, iframes; HTML and XML builders); search strings symbolic over {a, b, space, newline}, '
         'len <= 2, lists of one or two', timeout={'quick': 110, 'thorough': 900}, parts={'quick': 8, 'thorough': 16}),
    Cond('contains_api_ok', ':-soup-contains / -own / :contains (alias) / inside :not / with extra alternatives, through the '
         'real parser and select(), for 14 search strings (empty, spanning node boundaries, quotes, comma, backslash, '
         'escaped newline, non-ASCII)', '400/3000 seeded random trees; 14 strings x 9 forms (incl. -own and plain combined in one compound)', timeout={'quick': 100, 'thorough': 900},
         parts={'quick': 4, 'thorough': 8}),
    Cond('empty_ok', ':empty and :not(:empty) == reference emptiness on every element', '400/3000 seeded random trees',
         timeout={'quick': 60, 'thorough': 300}, parts={'quick': 2, 'thorough': 4}),
    Cond('empty_text_ok', 'a single child with symbolic content: text counts iff it contains a non-whitespace character; '
         'comment and CDATA children never count', 'len(s) <= 3, all of Unicode', timeout={'quick': 100, 'thorough': 900}),
]


def run(ctx):
    ctx.assume('text node contents are concrete (NavigableString is a str subclass, a C boundary for CrossHair): layouts and '
               'contents are a seeded pool; search strings and :empty content are symbolic',
               'SelectorContains is replaced by a stand-in with the same attributes (text, own) so that symbolic strings '
               'are not hashed by the IR constructor',
               'CrossHair 0.0.110 trusted for "exhaustive"; counterexamples replayed')
    ctx.run_e1('harness.c19', CONDS, FUNCS)
