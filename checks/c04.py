"""C04 — history independence, no mutation."""
from vlib.e1 import Cond

FUNCS = ['soupsieve.css_match.CSSMatch.match_lang (cached_meta_lang)', 'CSSMatch.match_default (cached_default_forms)',
         'CSSMatch.match_indeterminate (cached_indeterminate_forms)', 'CSSMatch.match_selectors (namespace / iframe swap)',
         'CSSMatch.select / match / filter / closest', 'SoupSieve.select/select_one/iselect/match/filter/closest']

CONDS = [
    Cond('select_vs_match_ok',
         'for every element: membership in one select() over the document == match() on that element alone; '
         'compact forms document (13 elements) with symbolic <html lang>, <meta content>, radio name, submit type',
         '27 memoising / HTML-only selectors; len(lang), len(meta) <= 2, len(name), len(type suffix) <= 1, all of Unicode; '
         '5 presence Booleans', timeout={'quick': 110, 'thorough': 900}, parts={'quick': 9, 'thorough': 14}),
    Cond('history_ok',
         'after any 3-call history (7 entry-point forms x 20 selectors each) the observed selector answers as on a '
         'pristine copy (select and match, either order); decode(), attrs and node identities unchanged',
         '5 documents (forms via html.parser/html5lib, plain, XHTML, XML) x 27 observed selectors x 140^3 histories '
         '(one scrambled symbolic index; 250 / 6000 histories per part)', timeout={'quick': 100, 'thorough': 900},
         parts={'quick': 4, 'thorough': 14}),
    Cond('odd_attrs_unchanged_ok', 'attribute values that are lists with non-string items, bytes, None, numbers, nested lists: '
         'the same objects with the same contents after select / match / filter / closest',
         '7 odd attributes x 14 selectors x 4 entry-point groups', timeout={'quick': 60, 'thorough': 120}),
    Cond('loose_unchanged_ok', 'parentless elements (extracted, never inserted; HTML and XML) are left parentless and unchanged by '
         'every entry point, and answer afterwards as a pristine copy does', '18 selectors (positional, :root, :has, state) x 5 entry-point '
         'groups x 3 elements', timeout={'quick': 60, 'thorough': 120}),
    Cond('twins_ok', 'a document with distinct nodes of identical markup (twin forms, twin lists under different sections): '
         'one select() agrees with match() per element, filter(iterable) and select() from sub-trees',
         '13 selectors x 3 parsers', timeout={'quick': 60, 'thorough': 120}),
    Cond('state_restored_ok',
         'CSSMatch.namespaces / iframe_restrict are restored whenever match() returns (probe subclass of the real matcher)',
         'general pool + memo pool x 5 documents', timeout={'quick': 100, 'thorough': 600},
         parts={'quick': 3, 'thorough': 4}),
]


def run(ctx):
    ctx.assume('histories are bounded at 3 calls; documents are concrete skeletons; language/meta/name/type strings are symbolic',
               'CrossHair 0.0.110 trusted for "exhaustive"; counterexamples replayed')
    ctx.run_e1('harness.c04', CONDS, FUNCS)
