"""C03 — entry points are views of one relation."""
from vlib.e1 import Cond

FUNCS = ['soupsieve.select/select_one/iselect/match/filter/closest/compile (module level)',
         'soupsieve.css_match.SoupSieve.select/iselect/select_one/match/filter/closest',
         'CSSMatch.select (descendant walk with limit)', 'CSSMatch.closest', 'CSSMatch.filter', 'CSSMatch.match',
         'CSSMatch.__init__ (scope resolution)', 'CSSMatch.match_scope']

CONDS = [
    Cond('limit_ok', 'select/iselect(limit=k) == select()[:k] for k >= 1, == select() for k <= 0',
         'k: every integer (unbounded symbolic); first 6 selectors of each part x 5 trees quick / 40 x 20 thorough',
         timeout={'quick': 100, 'thorough': 600}, parts={'quick': 4, 'thorough': 12}),
    Cond('views_ok', 'select == document-order reference filter of element descendants with :scope/& = call target; '
         'iselect, select_one, filter(tag), filter(iterable), closest, match agree with it',
         'pool: 12 scope/&/custom-alias forms + 500/4000 seeded random selector lists; 32/102 trees (HTML, XML, detached, '
         'parsed, several top-level nodes); document and first 6 elements as call target',
         timeout={'quick': 100, 'thorough': 900}, parts={'quick': 6, 'thorough': 16}),
    Cond('wrappers_ok', 'each module-level function == compile(pattern, namespaces, flags, custom=custom).method '
         '(same result or same exception type)',
         '7 selectors (incl. custom aliases, namespace prefix) x 4 namespace maps x flags {0, DEBUG} x custom {None, {}, map} '
         'x {HTML, XML} document', timeout={'quick': 100, 'thorough': 600}, parts={'quick': 4, 'thorough': 7}),
]


def run(ctx):
    ctx.assume('reference model vlib/refmodel.py; selector and tree pools are bounded enumerations steered by the solver; '
               'limit is the only unbounded symbolic quantity',
               'CrossHair 0.0.110 trusted for "exhaustive"; counterexamples replayed')
    ctx.run_e1('harness.c03', CONDS, FUNCS)
