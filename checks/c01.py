"""C01 — select() returns exactly what CSS designates."""
import z3
from vlib.e1 import Cond
from vlib import rx2smt as rx

FUNCS = ['soupsieve.css_match.CSSMatch.match_selectors', 'match_past_relations', 'match_future_relations',
         'match_future_child', 'match_attributes', 'match_attribute_name', 'match_id', 'match_classes', 'match_tag',
         'match_root', 'match_empty', 'match_nth', 'match_subselectors', 'CSSMatch.select',
         'soupsieve.css_parser.CSSParser.parse_attribute_selector (compiled operator patterns)',
         'CSSParser.parse_selectors / parse_combinator / parse_has_combinator / _Selector.freeze']

CONDS = [
    Cond('attr_value_ok',
         '[name OP "operand" flag] matches an element with attribute value v  <=>  reference string predicate(v)',
         'v: every string with len <= 3 quick / 4 thorough over all of Unicode; 7 operators x 9 operands (incl. empty, '
         'space, dash, non-ASCII) x flags {none, i, s} x attribute {t, type}; HTML and XML trees',
         timeout={'quick': 100, 'thorough': 900}, parts={'quick': 7, 'thorough': 10}),
    Cond('attr_list_value_ok', 'list-valued attributes compare as their space-joined value', 'len(v1), len(v2) <= 2',
         timeout={'quick': 80, 'thorough': 900}, parts={'quick': 1, 'thorough': 8}),
    Cond('id_class_ok', '#i1 / .k / .k.m against symbolic id and class content',
         'len(id) <= 3, two class strings with len <= 2, as list and as raw string',
         timeout={'quick': 80, 'thorough': 900}),
    Cond('structure_ok',
         'select() called on the document/root and on elements == reference select (identity and document order)',
         'selector pool: 600 quick / 5000 thorough seeded random selector lists of the claimed grammar (nesting depth 2: '
         'type/universal/id/class/attribute, 4 combinators, :not/:is/:where/:matches/:has incl. relative combinators, '
         ':nth-*(An+B [of S]), structural pseudo-classes) + 9 regression shapes; tree pool: 60 / 200 seeded random trees '
         '(<= 8 elements, depth <= 3, text/comment/CDATA/PI interleaved; HTML builder, XML builder, detached) + 3 parsed '
         'documents; VERIF_SEED rotates both pools',
         timeout={'quick': 100, 'thorough': 900}, parts={'quick': 4, 'thorough': 8}),
    Cond('symbolic_structure_ok',
         '18 structural selectors containing attribute tests on a 5-element tree whose three t attributes are symbolic '
         'strings (each present or absent): select == reference',
         'len(v) <= 2 quick / 3 thorough, all of Unicode', timeout={'quick': 100, 'thorough': 900},
         parts={'quick': 3, 'thorough': 9}),
]


def operator_lemmas(ctx):
    """E2: the operator pattern found in the compiled IR accepts exactly the reference predicate, over unbounded v."""
    import soupsieve as sv
    from vlib import refmodel as rm
    operands = ['x', 'xy', 'x y', 'a.b', 'x-', '(', '€', '']
    v = z3.String('v')
    n = 0
    for op in ('=', '^=', '$=', '*=', '|=', '~='):
        for x in operands:
            text = rm.render_list([[rm.comp(attrs=[(None, 't', op, x, 's')])]])
            pat = sv.compile(text).selectors[0].attributes[0].pattern
            tr = rx.Translation(pat)
            L = tr.prefix_language()
            X = z3.Re(rx.lit(x))
            ws = rx.union([z3.Re(rx.lit(c)) for c in ' \t\r\n\f'])
            F = rx.FULL
            if op == '=':
                ref = X
            elif op in ('^=', '$=', '*=') and x == '':
                ref = rx.EMPTYSET
            elif op == '^=':
                ref = z3.Concat(X, F)
            elif op == '$=':
                ref = z3.Concat(F, X)
            elif op == '*=':
                ref = z3.Concat(F, X, F)
            elif op == '|=':
                ref = z3.Union(X, z3.Concat(X, z3.Re(rx.lit('-')), F))
            elif x == '' or any(c in ' \t\r\n\f' for c in x):
                ref = rx.EMPTYSET
            else:
                ref = z3.Concat(z3.Option(z3.Concat(F, ws)), X, z3.Option(z3.Concat(ws, F)))
            s = z3.Solver()
            s.add(z3.InRe(v, z3.Union(z3.Intersect(L, z3.Complement(ref)), z3.Intersect(ref, z3.Complement(L)))))
            r = ctx.z3_check(s, f'op {op} {x!r}', 20000)
            ob = dict(engine='E2/z3', name=f'[t{op}{x!r} s] pattern {pat.pattern!r} == reference predicate (unbounded v)',
                      verdict={'unsat': 'exhaustive', 'sat': 'counterexample'}.get(r, 'inconclusive'),
                      inexact=tr.inexact[:3])
            if r == 'sat':
                val = rx.decode(s.model().eval(v, model_completion=True))
                real = pat.match(val) is not None
                exp = rm.attr_op(op, val, x, False)
                ob['model'] = val
                rec = dict(engine='E2', fn='operator_lemma', args=[op, x, val], args_repr=[repr(op), repr(x), repr(val)],
                           selector=text, value=val, detail=f'{text} on t={val!r}: real pattern match={real}, reference={exp}')
                ctx.report(rec, real != exp)
            ctx.obligation(**ob)
            n += 1
    ctx.sample({'lemma': 'operator pattern == string predicate', 'queries': n})


def replay(rec):
    import soupsieve as sv
    import bs4
    from vlib import refmodel as rm
    op, x, val = rec['args']
    soup = bs4.BeautifulSoup('<a></a>', 'html.parser')
    soup.a.attrs['t'] = val
    real = bool(sv.match(rec['selector'], soup.a))
    exp = rm.attr_op(op, val, x, False)
    return real != exp, f'sv.match({rec["selector"]!r}, <a t={val!r}>) = {real}, reference {exp}'


def run(ctx):
    ctx.assume('reference model vlib/refmodel.py is the oracle for "what CSS designates"; it is exercised against the '
               "repository's own expectations implicitly through agreement on the unchanged tree",
               'selector shapes and tree shapes are bounded pools chosen by a symbolic index (enumeration steered by the '
               'solver); only attribute/id/class strings are symbolic in the strong sense',
               'non-ASCII case folding is outside the claim',
               'util.lower lru_cache bypassed (pure function)',
               'CrossHair 0.0.110 models (with vlib/chfix.py) trusted for "exhaustive"; counterexamples replayed')
    ctx.lemma(operator_lemmas, 'operator_lemmas')
    ctx.run_e1('harness.c01', CONDS, FUNCS)
