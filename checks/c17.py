"""C17 — HTML state pseudo-classes."""
from vlib.e1 import Cond

FUNCS = ['soupsieve.css_parser CSS_LINK/CSS_CHECKED/CSS_DEFAULT/CSS_INDETERMINATE/CSS_DISABLED/CSS_ENABLED/CSS_REQUIRED/'
         'CSS_OPTIONAL/CSS_PLACEHOLDER_SHOWN/CSS_READ_WRITE/CSS_READ_ONLY/CSS_IN_RANGE/CSS_OUT_OF_RANGE',
         'soupsieve.css_match.CSSMatch.match_default', 'CSSMatch.match_indeterminate', 'CSSMatch.match_dir', 'CSSMatch.find_bidi',
         'CSSMatch.match_range', 'CSSMatch.match_placeholder_shown', 'CSSMatch.is_iframe / get_parent(no_iframe)']

CONDS = [
    Cond('doc_laws_ok', ':enabled/:disabled, :required/:optional, :read-write/:read-only partitions; :in-range/:out-of-range '
         'disjoint with the reference domain; :link == :any-link; :checked subset of :default; :dir(ltr)/:dir(rtl) partition of '
         'HTML elements; :default, :indeterminate, :placeholder-shown == reference definitions (per form / per document, '
         'iframe = document boundary)',
         '300/3000 seeded random forms documents (nested forms, fieldsets/legends, optgroups, 26 input type spellings, all '
         'state attributes, bidi text, iframes) + the forms document from html.parser / lxml / html5lib',
         timeout={'quick': 110, 'thorough': 900}, parts={'quick': 8, 'thorough': 16}),
    Cond('sym_type_ok', 'compact forms document, first input type / placeholder / value symbolic: :placeholder-shown == '
         'reference, :read-write/:read-only partition, no range state without bounds',
         'len(type) <= 2, len(placeholder), len(value) <= 1, all of Unicode', timeout={'quick': 110, 'thorough': 900},
         path_timeout=40),
    Cond('sym_radio_ok', 'radio name / checkedness and the submit input type suffix symbolic: :indeterminate and :default == '
         'reference, :checked subset of :default', 'len(name), len(suffix) <= 1', timeout={'quick': 110, 'thorough': 900},
         path_timeout=40),
    Cond('sym_dir_ok', '<p dir> and <html dir> symbolic: :dir(ltr) / :dir(rtl) partition all elements',
         'len(dir) <= 4 / 3, all of Unicode', timeout={'quick': 110, 'thorough': 900}, path_timeout=40),
]


def run(ctx):
    ctx.assume('type=hidden inputs are generated and count as outside :enabled/:disabled, as the library documents',
               'buttons always carry an explicit type', 'about 45% of the documents contain exact copies of a form or fieldset (identical markup, distinct nodes)',
               'documents are seeded pools chosen by symbolic index; the symbolic condition is time-boxed',
               'CrossHair 0.0.110 trusted for "exhaustive"; counterexamples replayed')
    ctx.run_e1('harness.c17', CONDS, FUNCS)
