"""C10 — escape() round trip."""
from vlib.e1 import Cond

FUNCS = ['soupsieve.css_parser.escape', 'soupsieve.css_parser.CSSParser (tokenizer + parse_class_id / '
         'parse_attribute_selector)', 'soupsieve.css_parser.css_unescape', 'soupsieve.css_parser.IDENTIFIER (token '
         'patterns id, class, attribute)', 'SoupSieve.select']

CONDS = [
    Cond('escape_total_ok', 'escape(s) returns a string and never raises', 'every string with len <= 2 quick / 3 thorough over all of Unicode',
         timeout={'quick': 60, 'thorough': 600}, expect_exhaustive=True),
    Cond('id_roundtrip_ok', "'#' + escape(s) compiles to exactly one compound with ids == (s with NUL -> U+FFFD,)",
         'len(s) = 1 quick / <= 2 thorough, every code point incl. controls, C1, surrogates, astral',
         timeout={'quick': 100, 'thorough': 900}, parts={'quick': 3, 'thorough': 7}),
    Cond('class_roundtrip_ok', "'.' + escape(s): exactly one compound with that class", 'same',
         timeout={'quick': 100, 'thorough': 900}, parts={'quick': 2, 'thorough': 7}),
    Cond('attr_roundtrip_ok', "'[a=' + escape(s) + ']': one attribute selector whose pattern accepts exactly the value",
         'same', timeout={'quick': 100, 'thorough': 900}, parts={'quick': 2, 'thorough': 7}),
    Cond('select_roundtrip_ok', 'on a 3-element tree the escaped selector selects exactly the element carrying the value '
         '(id / class / attribute)', 'len(s) = 1', timeout={'quick': 100, 'thorough': 600}, parts={'quick': 2, 'thorough': 7}),
    Cond('position_roundtrip_ok', 'one symbolic character in each position class (first with follower, interior, last, after a '
         'leading dash alone / followed, after "--", after "a-", ...) of an otherwise concrete identifier: id / class / '
         'embedded round trip', '9 shapes x every code point', timeout={'quick': 100, 'thorough': 900},
         parts={'quick': 3, 'thorough': 9}),
    Cond('position_enum_ok', 'the same shapes, plus two-character strings, for every code point up to U+02FF and 18 boundary code '
         'points: id / class / embedded / attribute-value round trip (bounded enumeration by symbolic block index)',
         '786 code points x (9 shapes + 23 short strings) x 4 forms', timeout={'quick': 100, 'thorough': 300}, parts={'quick': 4, 'thorough': 4}),
    Cond('embedded_ok', "'div#' + escape(s) + '.k > p' keeps the surrounding structure", 'len(s) = 1',
         timeout={'quick': 100, 'thorough': 600}, parts={'quick': 2, 'thorough': 7}),
]


def run(ctx):
    ctx.assume('s = "" is outside the claim (CSS has no empty identifier)',
               '_cached_css_compile lru_cache bypassed by calling CSSParser/SoupSieve directly (symbolic patterns cannot be hashed)',
               'util.lower lru_cache bypassed (pure function)',
               'the code point space is split into 14 ranges (part i of n handles ranges i, i+n, ...) so that each process can exhaust its share',
               'CrossHair 0.0.110 regex model (with vlib/chfix.py corrections) trusted for "exhaustive"; counterexamples replayed')
    ctx.run_e1('harness.c10', CONDS, FUNCS)
