"""C02 — An+B."""
import z3
from vlib.e1 import Cond
from vlib import rx2smt as rx

FUNCS = ['soupsieve.css_match.CSSMatch.match_nth', 'soupsieve.css_match.CSSMatch.match_nth_tag_type',
         'soupsieve.css_match._FakeParent', 'soupsieve.css_parser.CSSParser.parse_pseudo_nth',
         'soupsieve.css_parser.RE_NTH', 'soupsieve.css_match.CSSMatch.select (keyword forms)']

CONDS = [
    Cond('nth_arith_ok',
         'real CSSMatch.match_nth(el,(nth,)) == reference "exists n>=0: a*n+b == position" for element ei of n <li> '
         'siblings (bare, or each preceded by a text node / comment); a and b are UNBOUNDED symbolic integers, '
         'var (An+B vs constant) and last symbolic Booleans',
         'a, b: all integers (no bound); n <= 6 quick / 9 thorough siblings; every element index; 3 interleavings',
         timeout={'quick': 100, 'thorough': 900}, parts={'quick': 9, 'thorough': 14}, expect_exhaustive=True),
    Cond('nth_walk_ok',
         'position assigned by the real sibling walk (recovered via :nth-*(p) for p = 0..n+1, plus 2n+1 and -n+2) == '
         'reference position among element siblings / same-type siblings / siblings matching .x, from either end',
         'sibling layouts: all sequences over {li, li.x, p, p.x, text, comment} up to length 3 (quick) / 5 (thorough) '
         'and over {li, p, text} up to length 4 / 8; containers: <ul> in HTML doc (all layouts); document top level, '
         'detached <ul>, <ul> in XML doc (layouts up to length 3 / 4); body runs natively once the solver has fixed the indices',
         timeout={'quick': 100, 'thorough': 900}, parts={'quick': 6, 'thorough': 12}),
    Cond('nth_pairs_ok', 'two positional pseudo-classes on one compound (child / of-type / "of .x", either direction each): '
         'match_nth(el, (n1, n2)) == both reference positions hit, for all position pairs (p, q)',
         'same layout/container pool; 6 mode pairs x 4 direction pairs', timeout={'quick': 100, 'thorough': 900},
         parts={'quick': 4, 'thorough': 8}),
    Cond('nth_comment_spelling_ok', 'An+B spellings with comments and mixed whitespace around the sign, keyword case, through '
         'the real compile(): IR (a, b), of_type, last, of-S as the reference says', '29 spellings x 5 names x with/without of S',
         timeout={'quick': 60, 'thorough': 120}),
    Cond('nth_of_ns_ok', '"of S" with S a namespace test (*, *|*, |*, x|*, a bare type) under 6 prefix maps incl. default entries, on '
         'XML siblings in three namespaces and none: the counted siblings are exactly those S designates', '5 S x 6 maps x 2 '
         'directions x 6 An+B', timeout={'quick': 60, 'thorough': 120}),
    Cond('nth_detached_ok', 'parentless element (fake parent): position 1 from either end; a, b unbounded',
         'a, b: all integers', timeout={'quick': 60, 'thorough': 300}, expect_exhaustive=True),
    Cond('nth_parse_ok',
         'real CSSParser.parse_pseudo_nth on every valid An+B spelling s == reference An+B parser (a, n, b, of_type, last)',
         'len(s) <= 3 quick / 6 thorough over the alphabet "0-9 n N + - space"; four pseudo-class names',
         timeout={'quick': 100, 'thorough': 600}, parts={'quick': 2, 'thorough': 4}),
    Cond('nth_keywords_ok',
         ':first-child, :last-child, :only-child, :first/last/only-of-type select (real select()) exactly what their '
         'An+B instances select and what the reference position designates',
         'same layout pool; containers <ul> and document top level', timeout={'quick': 60, 'thorough': 600},
         parts={'quick': 3, 'thorough': 8}),
]


def nth_token_lemma(ctx):
    """E2: the An+B part of the live :nth-* token patterns accepts exactly the CSS An+B micro-syntax (with whitespace and
    comments allowed around the sign of B, keywords in any case), over unbounded strings."""
    import re._constants as c
    from soupsieve import css_parser as cp
    D = rx.rng(48, 57)

    def ci(word):
        return rx.concat([z3.Union(z3.Re(rx.lit(ch.lower())), z3.Re(rx.lit(ch.upper()))) for ch in word])
    ws = rx.union([z3.Re(rx.lit(x)) for x in (' ', '\t', '\n', '\r', '\f')])
    notstar = z3.Intersect(rx.ALLCHAR, z3.Complement(z3.Re(rx.lit('*'))))
    notstarslash = z3.Intersect(rx.ALLCHAR, z3.Complement(z3.Union(z3.Re(rx.lit('*')), z3.Re(rx.lit('/')))))
    star = z3.Re(rx.lit('*'))
    comment = z3.Concat(z3.Re(rx.lit('/*')), z3.Star(z3.Union(notstar, z3.Concat(z3.Plus(star), notstarslash))),
                        z3.Plus(star), z3.Re(rx.lit('/')))
    wsc = z3.Star(z3.Union(ws, comment))
    sign = z3.Union(z3.Re(rx.lit('+')), z3.Re(rx.lit('-')))
    n = ci('n')
    ref = z3.Union(
        z3.Concat(z3.Option(sign), z3.Plus(D)),
        z3.Concat(z3.Option(sign), z3.Star(D), n, z3.Option(z3.Concat(wsc, sign, wsc, z3.Plus(D)))),
        ci('even'), ci('odd'))
    x = z3.String('x')
    for tok in cp.CSSParser.css_tokens:
        if not isinstance(tok, cp.SpecialPseudoPattern):
            continue
        for name, pat in sorted(set((p.name, p.re_pattern) for p in tok.patterns.values()), key=lambda t: t[0]):
            if not name.startswith('pseudo_nth'):
                continue
            tr = rx.Translation(pat)
            gname = 'nth_child' if name.endswith('child') else 'nth_type'
            gid = pat.groupindex[gname]
            found = []

            def find(nodes):
                for op, arg in nodes:
                    if op is c.SUBPATTERN:
                        if arg[0] == gid:
                            found.append(arg[3])
                        find(arg[3])
                    elif op is c.BRANCH:
                        for a in arg[1]:
                            find(a)
                    elif op in (c.MAX_REPEAT, c.MIN_REPEAT):
                        find(arg[2])
            find(tr.tree)
            lang = tr.go(rx.EPS, found[0], rx.EPS, True)
            s = z3.Solver()
            s.add(z3.InRe(x, z3.Union(z3.Intersect(lang, z3.Complement(ref)), z3.Intersect(ref, z3.Complement(lang)))))
            s.add(z3.Length(x) <= 24)
            r = ctx.z3_check(s, name, 60000)
            ob = dict(engine='E2/z3', name=f'group {gname} of the live {name} token == CSS An+B micro-syntax (len <= 24)',
                      verdict={'unsat': 'exhaustive', 'sat': 'counterexample'}.get(r, 'inconclusive'), inexact=tr.inexact[:2])
            if r == 'sat':
                val = rx.decode(s.model().eval(x, model_completion=True))
                ob['model'] = val
                real = cp.RE_NTH.fullmatch(val) is not None or val.lower() in ('even', 'odd')
                pname = ':nth-child(' if gname == 'nth_child' else ':nth-of-type('
                try:
                    import soupsieve as sv
                    sv.compile(pname + val + ')')
                    accepted = True
                except Exception:  # noqa: BLE001
                    accepted = False
                import re as _re
                refpy = _re.fullmatch(r'(?i)[-+]?[0-9]+|[-+]?[0-9]*n(?:(?:[ \t\n\r\f]|/\*(?:[^*]|\*+[^*/])*\*+/)*[-+](?:[ \t\n\r\f]|/\*(?:[^*]|\*+[^*/])*\*+/)*[0-9]+)?|even|odd', val) is not None
                ctx.report(dict(engine='E2', fn='nth_token_lemma', args=[name, val], args_repr=[repr(name), repr(val)],
                                detail=f'{pname}{val}) compiles: {accepted}; the An+B micro-syntax accepts it: {refpy}'),
                           accepted != refpy)
            ctx.obligation(**ob)


def replay(rec):
    import re as _re
    import soupsieve as sv
    name, val = rec['args']
    pname = ':nth-child(' if name.endswith('child') else ':nth-of-type('
    try:
        sv.compile(pname + val + ')')
        accepted = True
    except Exception:  # noqa: BLE001
        accepted = False
    refpy = _re.fullmatch(r'(?i)[-+]?[0-9]+|[-+]?[0-9]*n(?:(?:[ \t\n\r\f]|/\*(?:[^*]|\*+[^*/])*\*+/)*[-+](?:[ \t\n\r\f]|/\*(?:[^*]|\*+[^*/])*\*+/)*[0-9]+)?|even|odd', val) is not None
    return accepted != refpy, f'compile accepts: {accepted}, micro-syntax accepts: {refpy}'


def run(ctx):
    ctx.lemma(nth_token_lemma, 'nth_token_lemma')
    ctx.bounds.append('see per-obligation bounds; |a|,|b| beyond the stated range are outside the claim')
    ctx.assume('SelectorNth is replaced by a duck-typed stand-in with the same attributes (a, n, b, of_type, last, '
               'selectors) so that the IR constructor does not hash (realise) symbolic integers; match_nth reads only '
               'those attributes',
               'CrossHair 0.0.110 path exhaustion and its int/str/regex models are trusted for "exhaustive" verdicts; '
               'counterexamples are replayed on the real code',
               'util.lower lru_cache bypassed (pure function)')
    ctx.run_e1('harness.c02', CONDS, FUNCS)
