"""C02 — An+B."""
from vlib.e1 import Cond

FUNCS = ['soupsieve.css_match.CSSMatch.match_nth', 'soupsieve.css_match.CSSMatch.match_nth_tag_type',
         'soupsieve.css_match._FakeParent', 'soupsieve.css_parser.CSSParser.parse_pseudo_nth',
         'soupsieve.css_parser.RE_NTH', 'soupsieve.css_match.CSSMatch.select (keyword forms)']

CONDS = [
    Cond('nth_arith_ok',
         'real CSSMatch.match_nth(el,(nth,)) == reference "exists n>=0: a*n+b == position" for element ei of n <li> '
         'siblings (bare, or each preceded by a text node / comment); a and b are UNBOUNDED symbolic integers, '
         'var (An+B vs constant) and last symbolic Booleans',
         'a, b: all integers (no bound); n <= 6 quick / 9 thorough siblings; every element index; 3 interleavings',
         timeout={'quick': 100, 'thorough': 900}, parts={'quick': 9, 'thorough': 14}, expect_exhaustive=True),
    Cond('nth_walk_ok',
         'position assigned by the real sibling walk (recovered via :nth-*(p) for p = 0..n+1, plus 2n+1 and -n+2) == '
         'reference position among element siblings / same-type siblings / siblings matching .x, from either end',
         'sibling layouts: all sequences over {li, li.x, p, p.x, text, comment} up to length 3 (quick) / 5 (thorough) '
         'and over {li, p, text} up to length 4 / 8; containers: <ul> in HTML doc (all layouts); document top level, '
         'detached <ul>, <ul> in XML doc (layouts up to length 3 / 4); body runs natively once the solver has fixed the indices',
         timeout={'quick': 100, 'thorough': 900}, parts={'quick': 6, 'thorough': 12}),
    Cond('nth_pairs_ok', 'two positional pseudo-classes on one compound (child / of-type / "of .x", either direction each): '
         'match_nth(el, (n1, n2)) == both reference positions hit, for all position pairs (p, q)',
         'same layout/container pool; 6 mode pairs x 4 direction pairs', timeout={'quick': 100, 'thorough': 900},
         parts={'quick': 4, 'thorough': 8}),
    Cond('nth_comment_spelling_ok', 'An+B spellings with comments and mixed whitespace around the sign, keyword case, through '
         'the real compile(): IR (a, b), of_type, last, of-S as the reference says', '14 spellings x 5 names x with/without of S',
         timeout={'quick': 60, 'thorough': 120}),
    Cond('nth_detached_ok', 'parentless element (fake parent): position 1 from either end; a, b unbounded',
         'a, b: all integers', timeout={'quick': 60, 'thorough': 300}, expect_exhaustive=True),
    Cond('nth_parse_ok',
         'real CSSParser.parse_pseudo_nth on every valid An+B spelling s == reference An+B parser (a, n, b, of_type, last)',
         'len(s) <= 3 quick / 6 thorough over the alphabet "0-9 n N + - space"; four pseudo-class names',
         timeout={'quick': 100, 'thorough': 600}, parts={'quick': 2, 'thorough': 4}),
    Cond('nth_keywords_ok',
         ':first-child, :last-child, :only-child, :first/last/only-of-type select (real select()) exactly what their '
         'An+B instances select and what the reference position designates',
         'same layout pool; containers <ul> and document top level', timeout={'quick': 60, 'thorough': 600},
         parts={'quick': 3, 'thorough': 8}),
]


def run(ctx):
    ctx.bounds.append('see per-obligation bounds; |a|,|b| beyond the stated range are outside the claim')
    ctx.assume('SelectorNth is replaced by a duck-typed stand-in with the same attributes (a, n, b, of_type, last, '
               'selectors) so that the IR constructor does not hash (realise) symbolic integers; match_nth reads only '
               'those attributes',
               'CrossHair 0.0.110 path exhaustion and its int/str/regex models are trusted for "exhaustive" verdicts; '
               'counterexamples are replayed on the real code',
               'util.lower lru_cache bypassed (pure function)')
    ctx.run_e1('harness.c02', CONDS, FUNCS)
