"""C11 — case rules per document type."""
from vlib.e1 import Cond

FUNCS = ['soupsieve.css_match.CSSMatch.__init__ (is_xml / is_html / has_html_namespace)', 'CSSMatch.get_tag / match_tagname',
         'CSSMatch.match_attribute_name', 'CSSMatch.match_attributes (pattern vs xml_type_pattern)',
         'soupsieve.css_parser.CSSParser.parse_attribute_selector (flags, type special case)',
         'CSSMatch.match_selectors (HTML-only lists)', 'soupsieve.util.lower']

CONDS = [
    Cond('tag_case_ok', 'type selectors vs a document tag name spelled with a symbolic ASCII case mask: HTML ignores case; '
         'XHTML and XML compare exactly', '2-letter name, all 4 case masks chosen by the solver; 7 selector spellings; 3 '
         'document kinds (bs4 API with html.parser builder / XML builder + XHTML namespace / XML builder)',
         timeout={'quick': 100, 'thorough': 900}),
    Cond('attr_name_case_ok', 'attribute-name selectors vs a symbolic-case attribute name in the document',
         '8 selector spellings x 3 kinds', timeout={'quick': 100, 'thorough': 900}),
    Cond('value_case_ok', 'attribute values: case-sensitive except `type` in HTML; i / s flags override; XML/XHTML always '
         'sensitive unless i', '24 selectors (all operators, t and type, names that merely contain "type", id/class as attributes, flags) x symbolic-case value x 3 kinds',
         timeout={'quick': 100, 'thorough': 900}, parts={'quick': 4, 'thorough': 8}),
    Cond('id_class_case_ok', '#id and .class compare exactly in HTML, XHTML and XML (symbolic case masks on the document side)',
         '5 selectors x 3 kinds', timeout={'quick': 100, 'thorough': 300}),
    Cond('parsed_case_ok', '<AB TT="Ab" Type="Ab"> parsed by html.parser, lxml, html5lib and lxml-xml against 17 selector '
         'spellings with expected HTML / XML outcomes', '17 selectors x 4 parsers', timeout={'quick': 60, 'thorough': 120}),
    Cond('html_only_ok', 'the 17 pseudo-class spellings documented as HTML-only select nothing in 3 XML documents, alone '
         'and inside :is / :has / :not(:not()) / lists / combinators / :nth-child(of); non-vacuous on XHTML',
         '17 x 11 wrappers x 3 documents', timeout={'quick': 100, 'thorough': 300}),
]


def run(ctx):
    ctx.assume('ASCII letters only (non-ASCII case folding is outside the claim)',
               'trees are built through the bs4 API so that the document, not the parser, decides the spelling',
               'CrossHair 0.0.110 trusted for "exhaustive"; counterexamples replayed')
    ctx.run_e1('harness.c11', CONDS, FUNCS)
